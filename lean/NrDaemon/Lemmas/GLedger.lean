import NrDaemon.Model.GLedger
/-! Conservation for the generic ledger machine: for every lawful container and every history. -/

variable {σ α : Type} [DecidableEq α]

def GM.Conserved (C : Cont σ α) (Inv : σ → Prop) (s : GM σ α) : Prop :=
  Inv s.cur ∧ (∀ p ∈ s.inflight, Inv p) ∧ ∃ lost, (s.held C ++ lost).Perm s.offered

theorem count_flatMap_eraseIdx_gen (f : σ → List α) (l : List σ) (i : Nat) (p : σ) (h : l[i]? = some p) (x : α) :
    List.count x (l.flatMap f) = List.count x (f p) + List.count x ((l.eraseIdx i).flatMap f) := by
  induction l generalizing i with
  | nil => simp at h
  | cons y ys ih =>
    cases i with
    | zero =>
      simp at h
      subst h
      simp [List.count_append]
    | succ j =>
      simp at h
      have := ih j h
      simp only [List.flatMap_cons, List.eraseIdx_cons_succ, List.count_append]
      omega

theorem mem_of_mem_eraseIdx_gen (l : List σ) (i : Nat) (q : σ) (h : q ∈ l.eraseIdx i) : q ∈ l :=
  List.mem_of_mem_eraseIdx h

theorem gStep_conserved (C : Cont σ α) (Inv : σ → Prop) (hC : C.Lawful Inv) (s : GM σ α) (ev : GEvent α)
    (h : s.Conserved C Inv) : (s.step C ev).Conserved C Inv := by
  obtain ⟨hcur, hinf, lost, hl⟩ := h
  rw [List.perm_iff_count] at hl
  cases ev with
  | offer e =>
    obtain ⟨d, hd⟩ := hC.offer_conserve s.cur e hcur
    rw [List.perm_iff_count] at hd
    refine ⟨hC.offer_inv _ _ hcur, hinf, lost ++ d, ?_⟩
    rw [List.perm_iff_count]
    intro x
    have h1 := hl x
    have h2 := hd x
    simp only [GM.step, GM.held, List.count_append] at *
    omega
  | harvest =>
    simp only [GM.step]
    split
    · exact ⟨hcur, hinf, lost, List.perm_iff_count.mpr hl⟩
    · refine ⟨hC.fresh_inv, ?_, lost, ?_⟩
      · intro p hp
        rcases List.mem_append.mp hp with hp | hp
        · exact hinf p hp
        · simp at hp; subst hp; exact hcur
      · rw [List.perm_iff_count]
        intro x
        have h1 := hl x
        simp only [GM.held, hC.fresh_contents, List.flatMap_append, List.flatMap_cons, List.flatMap_nil, List.append_nil,
          List.count_append, List.count_nil] at *
        omega
  | ack i =>
    simp only [GM.step]
    split
    · rename_i p hp
      refine ⟨hcur, fun q hq => hinf q (List.mem_of_mem_eraseIdx hq), lost, ?_⟩
      rw [List.perm_iff_count]
      intro x
      have h1 := hl x
      have h2 := count_flatMap_eraseIdx_gen C.contents s.inflight i p hp x
      simp only [GM.held, List.count_append] at *
      omega
    · exact ⟨hcur, hinf, lost, List.perm_iff_count.mpr hl⟩
  | retry i =>
    simp only [GM.step]
    split
    · rename_i p hp
      have hpinv : Inv p := hinf p (List.mem_of_getElem? hp)
      obtain ⟨d, hd⟩ := hC.merge_conserve s.cur p hcur hpinv
      rw [List.perm_iff_count] at hd
      refine ⟨hC.merge_inv _ _ hcur hpinv, fun q hq => hinf q (List.mem_of_mem_eraseIdx hq), lost ++ d, ?_⟩
      rw [List.perm_iff_count]
      intro x
      have h1 := hl x
      have h2 := count_flatMap_eraseIdx_gen C.contents s.inflight i p hp x
      have h3 := hd x
      simp only [GM.held, List.count_append] at *
      omega
    · exact ⟨hcur, hinf, lost, List.perm_iff_count.mpr hl⟩
  | fatal i =>
    simp only [GM.step]
    split
    · rename_i p hp
      refine ⟨hcur, fun q hq => hinf q (List.mem_of_mem_eraseIdx hq), lost ++ C.contents p, ?_⟩
      rw [List.perm_iff_count]
      intro x
      have h1 := hl x
      have h2 := count_flatMap_eraseIdx_gen C.contents s.inflight i p hp x
      simp only [GM.held, List.count_append] at *
      omega
    · exact ⟨hcur, hinf, lost, List.perm_iff_count.mpr hl⟩

theorem gRun_conserved (C : Cont σ α) (Inv : σ → Prop) (hC : C.Lawful Inv) (s : GM σ α) (evs : List (GEvent α))
    (h : s.Conserved C Inv) : (s.run C evs).Conserved C Inv := by
  induction evs generalizing s with
  | nil => exact h
  | cons e es ih => exact ih (s.step C e) (gStep_conserved C Inv hC s e h)

/-- **conservation, all histories** -/
theorem gLedger (C : Cont σ α) (Inv : σ → Prop) (hC : C.Lawful Inv) (evs : List (GEvent α)) :
    let s := (GM.init C).run C evs
    ∃ lost, (C.contents s.cur ++ s.inflight.flatMap C.contents ++ s.acked ++ lost).Perm s.offered :=
  (gRun_conserved C Inv hC _ evs ⟨hC.fresh_inv, by simp [GM.init], [], by simp [GM.init, GM.held, hC.fresh_contents]⟩).2.2

/-- **delivered at most once**: with pairwise distinct units, nothing is acknowledged twice and nothing acknowledged is
still held or in flight -/
theorem gLedger_at_most_once (C : Cont σ α) (Inv : σ → Prop) (hC : C.Lawful Inv) (evs : List (GEvent α))
    (hd : ((GM.init C).run C evs).offered.Nodup) :
    let s := (GM.init C).run C evs
    s.acked.Nodup ∧ ∀ e ∈ s.acked, e ∉ C.contents s.cur ∧ e ∉ s.inflight.flatMap C.contents := by
  obtain ⟨lost, hp⟩ := gLedger C Inv hC evs
  have hn := hp.nodup_iff.mpr hd
  dsimp only
  simp only [List.nodup_append, List.append_assoc] at hn
  obtain ⟨_, ⟨_, ⟨hacked, _, _⟩, hdisj2⟩, hdisj1⟩ := hn
  refine ⟨hacked, fun e he => ⟨?_, ?_⟩⟩
  · intro hc
    exact hdisj1 e hc e (by simp [he]) rfl
  · intro hc
    exact hdisj2 e hc e (by simp [he]) rfl
