def hello := "world"
