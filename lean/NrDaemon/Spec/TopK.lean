import NrDaemon.Model.Reservoir
import NrDaemon.Model.SlowSQL
/-!
  Executable specification predicates for C05/C06, evaluated by the driver on the *implementation's* output.
-/

def removeOne (x : Ev) : List Ev → Option (List Ev)
  | [] => none
  | y :: ys => if x = y then some ys else (removeOne x ys).map (y :: ·)

/-- multiset difference `offered − kept`; `none` when `kept ⊄ offered` -/
def msubtract (offered : List Ev) : List Ev → Option (List Ev)
  | [] => some offered
  | k :: ks => match removeOne k offered with
      | none => none
      | some rest => msubtract rest ks

/-- `kept` is a top-`cap` selection of `offered`: a sub-multiset of the right size such that nothing dropped
outranks anything kept. -/
def isTopK (cap : Nat) (offered kept : List Ev) : Bool :=
  match msubtract offered kept with
  | none => false
  | some dropped =>
      kept.length == min offered.length cap &&
      dropped.all (fun d => kept.all (fun k => decide (d.prio ≤ k.prio)))

/-- bounded and counted exactly (C05) for a reservoir dump -/
def resCountsOk (cap seen : Nat) (offeredCount : Nat) (kept : List Ev) : Bool :=
  kept.length ≤ cap && seen == offeredCount

/-! slow SQL spec: per-id aggregate of a list of observations -/
def slowAgg (obs : List Slow) (id : Nat) : Option Slow :=
  (obs.filter (·.id = id)).foldl (fun acc o => match acc with
    | none => some o
    | some s => some (s.merge o)) none

/-- The retained statements are those with the largest maxima: every observation of a non-retained id is
no slower than every retained entry's maximum; at most `cap` retained; distinct ids. -/
def slowTopOk (cap : Nat) (obs : List Slow) (kept : List Slow) : Bool :=
  kept.length ≤ cap &&
  (kept.map (·.id)).eraseDups.length == kept.length &&
  obs.all (fun o => kept.any (fun k => k.id = o.id) || kept.all (fun k => decide (o.max ≤ k.max))) &&
  (kept.length < cap → (obs.map (·.id)).eraseDups.length == kept.length : Bool)
