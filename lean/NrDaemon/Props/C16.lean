import NrDaemon.Props.Reviewed
import NrDaemon.Gen.Skeleton
import NrDaemon.Model.SpanQueue
import NrDaemon.Gen.SpanQueue
import NrDaemon.Gen.Skeleton
/-!
  C16 — span queue applies back-pressure without blocking.

  The theorems are about `SQ.step`, the small-step machine of producer, worker and owner; a list of events is an
  arbitrary interleaving, batch sizes are arbitrary naturals (0, = Q, > Q included), Q is arbitrary (0 included).
-/

set_option linter.unusedSimpArgs false

def inHands (w : Worker) : Nat :=
  match w with
  | .inSend c => c
  | .creditBlocked c _ _ => c
  | _ => 0

def handsCount (w : Worker) : Nat :=
  match w with
  | .inSend _ => 1
  | .creditBlocked _ _ _ => 1
  | _ => 0

/-- capacity invariant -/
structure SQ.Inv (s : SQ) : Prop where
  /-- free capacity + queued + in the sender's hands + sent-but-uncredited never exceeds Q: the counter cannot wrap
      and the spans waiting in the queue never exceed Q -/
  cap : s.remaining + sum s.chan + inHands s.worker + sum s.credits ≤ s.q
  /-- … and is exactly Q until the queue is closed -/
  capEq : s.closed = false → s.remaining + sum s.chan + inHands s.worker + sum s.credits = s.q
  slots : s.chan.length ≤ s.q
  /-- batches outstanding (queued, in hands, credited) fit the credit channel: the worker's credit send never blocks -/
  credit : s.credits.length + s.chan.length + handsCount s.worker ≤ s.q + 1
  closedEmpty : s.closed = true → s.chan = []
  closedInit : s.closed = true → s.shutdownInitiated = true
  notBlocked : ∀ c a b, s.worker ≠ .creditBlocked c a b

/-- ledger: every span handed over is in exactly one place -/
def SQ.Ledger (s : SQ) : Prop :=
  s.handed = s.toSender + s.dumped + s.refused + s.drained + sum s.chan

theorem sum_append (a b : List Nat) : sum (a ++ b) = sum a + sum b := by
  unfold sum
  rw [List.foldl_append]
  generalize List.foldl (· + ·) 0 a = x
  induction b generalizing x with
  | nil => simp
  | cons y ys ih => simp only [List.foldl_cons]; rw [ih (x + y), ih (0 + y)]; omega

@[simp] theorem sum_nil : sum [] = 0 := rfl

theorem sum_single (a : Nat) : sum [a] = a := by simp [sum]

theorem sum_cons (a : Nat) (l : List Nat) : sum (a :: l) = a + sum l := by
  have h := sum_append [a] l
  rw [sum_single] at h
  exact h

theorem handsCount_le (w : Worker) : handsCount w ≤ 1 := by unfold handsCount; split <;> omega

theorem init_inv (q : Nat) : (SQ.init q).Inv := by
  constructor <;> simp [SQ.init, inHands, handsCount]

theorem init_ledger (q : Nat) : (SQ.init q).Ledger := by simp [SQ.init, SQ.Ledger]

theorem closeMessages_inv (s : SQ) (h : s.Inv) (hi : s.shutdownInitiated = true) : s.closeMessages.Inv := by
  unfold SQ.closeMessages
  split
  · exact h
  · constructor
    · have := h.cap; simp only [sum_nil]; omega
    · intro hc; simp at hc
    · simp
    · have := h.credit; simp only [List.length_nil]; omega
    · intro _; rfl
    · intro _; exact hi
    · exact h.notBlocked

theorem workerExit_inv (s : SQ) (h : s.Inv) (hw : inHands s.worker = 0) : s.workerExit.Inv := by
  constructor
  · have := h.cap; simp only [SQ.workerExit, inHands]; omega
  · intro hc; have := h.capEq hc; simp only [SQ.workerExit, inHands]; omega
  · exact h.slots
  · have := h.credit; simp only [SQ.workerExit, handsCount]; omega
  · exact h.closedEmpty
  · intro _; rfl
  · intro c a b; simp [SQ.workerExit]

theorem queueBatch_inv (s : SQ) (n : Nat) (h : s.Inv) : (s.queueBatch n).Inv := by
  unfold SQ.queueBatch
  dsimp only
  split
  · -- shutdown has begun: refuse
    rename_i hi
    split
    · exact ⟨h.cap, h.capEq, h.slots, h.credit, h.closedEmpty, h.closedInit, h.notBlocked⟩
    · have hc := closeMessages_inv { s with handed := s.handed + n }
        ⟨h.cap, h.capEq, h.slots, h.credit, h.closedEmpty, h.closedInit, h.notBlocked⟩ hi
      exact ⟨hc.cap, hc.capEq, hc.slots, hc.credit, hc.closedEmpty, hc.closedInit, hc.notBlocked⟩
  · rename_i hni
    have hcap := h.cap
    have hslots := h.slots
    have hcred := h.credit
    have hw := handsCount_le s.worker
    have hopen : s.closed = false := by
      cases hcl : s.closed with
      | false => rfl
      | true => exact absurd (h.closedInit hcl) hni
    have heq := h.capEq hopen
    have hclosedF : ∀ {P : Prop}, s.closed = true → P := fun hc => by rw [hopen] at hc; cases hc
    repeat' split
    all_goals
      refine ⟨?_, fun _ => ?_, ?_, ?_, fun hc => ?_, h.closedInit, ?_⟩
    all_goals
      first
        | exact h.notBlocked
        | (intro c a b; simp; done)
        | (simp only [sum_append, sum_nil, sum_single, List.length_append, List.length_cons, List.length_nil,
            List.nil_append] at *; omega)
        | (have hq := ‹s.q = 0 ∧ s.worker = Worker.ready›
           have hw0 : inHands s.worker = 0 := by rw [hq.2]; rfl
           have hc0 : handsCount s.worker = 0 := by rw [hq.2]; rfl
           simp only [inHands, handsCount, sum_append, sum_nil, sum_single, List.length_append, List.length_cons,
             List.length_nil, List.nil_append] at *; omega)
        | rfl
        | exact hclosedF hc
        | exact h.closedEmpty hc

theorem sendDone_inv (s : SQ) (c : Nat) (ok fatal : Bool) (h : s.Inv) (hw : s.worker = .inSend c) :
    (({ s with credits := s.credits ++ [c] }).afterSend ok fatal).Inv := by
  have hcap := h.cap
  have hcr := h.credit
  rw [hw] at hcap hcr
  simp only [inHands, handsCount] at hcap hcr
  unfold SQ.afterSend SQ.workerExit
  repeat' split
  all_goals
    refine ⟨?_, fun hc => ?_, h.slots, ?_, h.closedEmpty, ?_, by intro c a b; simp⟩
  all_goals
    first
      | (have := h.capEq hc; rw [hw] at this; simp only [inHands, handsCount, sum_append, sum_single, List.length_append,
          List.length_cons, List.length_nil] at *; omega)
      | (simp only [inHands, handsCount, sum_append, sum_single, List.length_append, List.length_cons, List.length_nil] at *; omega)
      | exact h.closedInit
      | (intro _; rfl)

/-- **C16 (capacity bookkeeping, one step).**  Every step of every goroutine preserves the capacity invariant. -/
theorem step_inv (s : SQ) (e : SQEvent) (h : s.Inv) : (s.step e).Inv := by
  cases e with
  | batch n => exact queueBatch_inv s n h
  | connectOk =>
    simp only [SQ.step]
    split
    · rename_i hw
      exact ⟨by have := h.cap; rw [hw] at this; simpa [inHands] using this,
        fun hc => by have := h.capEq hc; rw [hw] at this; simpa [inHands] using this,
        h.slots, by have := h.credit; rw [hw] at this; simpa [handsCount] using this,
        h.closedEmpty, h.closedInit, by intro c a b; simp⟩
    · exact h
  | connectFail f =>
    simp only [SQ.step]
    split
    · rename_i hw; exact workerExit_inv s h (by rw [hw.1]; rfl)
    · exact h
  | take =>
    simp only [SQ.step]
    split
    · rename_i hw
      split
      · rename_i c rest hch
        have hcap := h.cap; have hcr := h.credit; have hsl := h.slots
        rw [hw, hch] at hcap hcr
        rw [hch] at hsl
        simp only [sum_cons, inHands, handsCount, List.length_cons] at hcap hcr hsl
        refine ⟨?_, fun hc => ?_, ?_, ?_, fun hc => ?_, h.closedInit, by intro c a b; simp⟩
        · simp only [inHands]; omega
        · have := h.capEq hc; rw [hw, hch] at this; simp only [sum_cons, inHands] at *; omega
        · show rest.length ≤ s.q; omega
        · show s.credits.length + rest.length + handsCount (.inSend c) ≤ s.q + 1; simp only [handsCount]; omega
        · have := h.closedEmpty hc; rw [hch] at this; exact absurd this (by simp)
      · split
        · exact workerExit_inv s h (by rw [hw]; rfl)
        · exact h
    · exact h
  | sendDone ok fatal =>
    simp only [SQ.step]
    split
    · rename_i c hw
      have hcr := h.credit
      rw [hw] at hcr
      simp only [handsCount] at hcr
      split
      · exact sendDone_inv s c ok fatal h hw
      · omega
    · exact h
  | creditFreed =>
    simp only [SQ.step]
    split
    · rename_i c ok fatal hw; exact absurd hw (h.notBlocked c ok fatal)
    · exact h
  | respErr f =>
    simp only [SQ.step]
    split
    · rename_i hw
      split
      · exact workerExit_inv s h (by rw [hw]; rfl)
      · exact ⟨by have := h.cap; rw [hw] at this; simpa [inHands] using this,
          fun hc => by have := h.capEq hc; rw [hw] at this; simpa [inHands] using this,
          h.slots, by have := h.credit; rw [hw] at this; simpa [handsCount] using this,
          h.closedEmpty, h.closedInit, by intro c a b; simp⟩
    · exact h
  | seeShutdown =>
    simp only [SQ.step]
    split
    · rename_i hw; exact workerExit_inv s h (by rw [hw.1]; rfl)
    · exact h
  | initShutdown =>
    simp only [SQ.step]
    exact ⟨h.cap, h.capEq, h.slots, h.credit, h.closedEmpty, fun _ => rfl, h.notBlocked⟩
  | closeMessages =>
    simp only [SQ.step]
    split
    · rename_i hi; exact closeMessages_inv s h hi
    · exact h

theorem closeMessages_ledger (s : SQ) (h : s.Ledger) : s.closeMessages.Ledger := by
  unfold SQ.closeMessages SQ.Ledger at *
  split
  · exact h
  · simp only [sum_nil]; omega

theorem queueBatch_ledger (s : SQ) (n : Nat) (h : s.Ledger) : (s.queueBatch n).Ledger := by
  unfold SQ.queueBatch
  dsimp only
  split
  · split
    · unfold SQ.Ledger at *; simp only; omega
    · have := closeMessages_ledger { s with handed := s.handed + n, refused := s.refused + n }
        (by unfold SQ.Ledger at *; simp only; omega)
      unfold SQ.closeMessages SQ.Ledger at *
      split at this <;> split <;> simp_all <;> omega
  · unfold SQ.Ledger at *
    repeat' split
    all_goals (simp only [sum_append, sum_nil, sum_single, List.nil_append] at *; omega)

/-- one step keeps the ledger balanced -/
theorem step_ledger (s : SQ) (e : SQEvent) (h : s.Ledger) : (s.step e).Ledger := by
  cases e with
  | batch n => exact queueBatch_ledger s n h
  | take =>
    simp only [SQ.step]
    split
    · split
      · rename_i c rest hch; unfold SQ.Ledger at *; rw [hch] at h; simp only [sum_cons] at *; omega
      · split
        · exact h
        · exact h
    · exact h
  | closeMessages => simp only [SQ.step]; split; exact closeMessages_ledger s h; exact h
  | connectOk => simp only [SQ.step]; split <;> exact h
  | connectFail f => simp only [SQ.step]; split <;> exact h
  | sendDone ok fatal =>
    simp only [SQ.step, SQ.afterSend, SQ.workerExit]
    repeat' split
    all_goals exact h
  | creditFreed =>
    simp only [SQ.step, SQ.afterSend, SQ.workerExit]
    repeat' split
    all_goals exact h
  | respErr f =>
    simp only [SQ.step, SQ.workerExit]
    repeat' split
    all_goals exact h
  | seeShutdown => simp only [SQ.step]; split <;> exact h
  | initShutdown => exact h

theorem run_inv (s : SQ) (es : List SQEvent) (h : s.Inv) : (s.run es).Inv := by
  induction es generalizing s with
  | nil => exact h
  | cons e es ih => exact ih (s.step e) (step_inv s e h)

theorem run_ledger (s : SQ) (es : List SQEvent) (h : s.Ledger) : (s.run es).Ledger := by
  induction es generalizing s with
  | nil => exact h
  | cons e es ih => exact ih (s.step e) (step_ledger s e h)

theorem step_q (s : SQ) (e : SQEvent) : (s.step e).q = s.q := by
  cases e <;> simp only [SQ.step, SQ.queueBatch, SQ.closeMessages, SQ.afterSend, SQ.workerExit] <;>
    (repeat' split) <;> rfl

theorem run_q (s : SQ) (es : List SQEvent) : (s.run es).q = s.q := by
  induction es generalizing s with
  | nil => rfl
  | cons e es ih => exact (ih (s.step e)).trans (step_q s e)

/-! ## The property -/

/-- **C16 (bounded queue, counter never wraps; all sizes, all interleavings).**  In every state reachable from a new
queue of any size Q by any interleaving of `QueueBatch` calls of any sizes with the worker's connects, receives, sends
(succeeding or failing), asynchronous errors, restarts and the two halves of `Shutdown`: the spans waiting in the queue
never exceed Q, the batches waiting never exceed the Q slots of the channel, and the producer's counter is at most Q
(so the unsigned subtraction in `QueueBatch` never wraps). -/
theorem C16_queue_bounded (q : Nat) (es : List SQEvent) :
    let s := (SQ.init q).run es
    sum s.chan ≤ q ∧ s.chan.length ≤ q ∧ s.remaining ≤ q ∧
      s.remaining + sum s.chan + inHands s.worker + sum s.credits ≤ q := by
  have h := run_inv (SQ.init q) es (init_inv q)
  have hq : ((SQ.init q).run es).q = q := run_q (SQ.init q) es
  have hc := h.cap
  have hs := h.slots
  rw [hq] at hc hs
  dsimp only
  omega

/-- **C16 (every span accounted for exactly once).**  In every reachable state
`handed = passed to the sender + discarded with the queue + refused after shutdown began + still queued when the queue
was closed + still waiting in the queue`, the five places being disjoint counters. -/
theorem C16_ledger (q : Nat) (es : List SQEvent) :
    let s := (SQ.init q).run es
    s.handed = s.toSender + s.dumped + s.refused + s.drained + sum s.chan :=
  run_ledger (SQ.init q) es (init_ledger q)

/-- **C16 (the worker never blocks on its credit).**  No reachable state has the worker blocked on `messagesSent`. -/
theorem C16_worker_never_credit_blocked (q : Nat) (es : List SQEvent) (c : Nat) (a b : Bool) :
    ((SQ.init q).run es).worker ≠ .creditBlocked c a b :=
  (run_inv (SQ.init q) es (init_inv q)).notBlocked c a b

/-- **C16 (when a batch does not fit the whole queue is discarded and counted).** -/
theorem C16_dump_whole_queue (s : SQ) (n : Nat) (hi : s.shutdownInitiated = false)
    (hfit : s.remaining + sum s.credits < n) :
    let s' := s.queueBatch n
    s'.dumped ≥ s.dumped + sum s.chan ∧ (s'.chan = [] ∨ s'.chan = [n]) := by
  unfold SQ.queueBatch
  dsimp only
  simp only [hi, Bool.false_eq_true, ↓reduceIte, hfit]
  repeat' split
  all_goals simp <;> omega

/-- **C16 (after shutdown has begun nothing more is queued).** -/
theorem C16_refused_after_shutdown (s : SQ) (n : Nat) (hi : s.shutdownInitiated = true) :
    let s' := s.queueBatch n
    s'.refused = s.refused + n ∧ s'.toSender = s.toSender ∧ s'.dumped = s.dumped ∧ s'.chan.length ≤ s.chan.length := by
  unfold SQ.queueBatch SQ.closeMessages
  dsimp only
  simp only [hi, ↓reduceIte]
  repeat' split
  all_goals simp

/-- **C16 (a batch of real spans that fits always finds a slot).**  If every queued batch carries at least one span —
the agent never sends an empty one — the non-blocking send's `default` branch is dead: slots run out only for
zero-count batches, which use no capacity. -/
theorem C16_slot_available (s : SQ) (n : Nat) (h : s.Inv) (hpos : ∀ c ∈ s.chan, 1 ≤ c) (hn : 1 ≤ n)
    (hfit : n ≤ s.remaining) : s.chan.length < s.q := by
  have hlen : ∀ l : List Nat, (∀ c ∈ l, 1 ≤ c) → l.length ≤ sum l := by
    intro l
    induction l with
    | nil => intro _; simp
    | cons a l ih =>
      intro hl
      have := ih (fun c hc => hl c (List.mem_cons_of_mem a hc))
      have ha := hl a List.mem_cons_self
      rw [sum_cons]; simp only [List.length_cons]; omega
  have := hlen s.chan hpos
  have := h.cap
  omega

theorem closeMessages_facts (t : SQ) (he : t.closed = true → t.chan = []) :
    t.closeMessages.closed = true ∧ t.closeMessages.chan = [] ∧ t.closeMessages.shutdownInitiated = t.shutdownInitiated := by
  unfold SQ.closeMessages
  split
  · rename_i hc; exact ⟨hc, he hc, rfl⟩
  · exact ⟨rfl, rfl, rfl⟩

/-- **C16 (shutdown at any moment ends the worker).**  Once both halves of `Shutdown` have run — in any reachable
state, whatever the sender is doing — the queue is closed and empty, and a worker that is (or comes back) in its select
leaves the loop on its next step; `Shutdown` itself is two non-blocking steps around a wait bounded by its timer. -/
theorem C16_shutdown_ends_worker (s : SQ) (h : s.Inv) :
    let s' := (s.step .initShutdown).step .closeMessages
    s'.closed = true ∧ s'.chan = [] ∧ s'.shutdownInitiated = true ∧
      (∀ t : SQ, t.closed = true → t.chan = [] → t.worker = .ready → t.settle.worker = .exited) := by
  have hf := closeMessages_facts (s.step .initShutdown) (fun hc => h.closedEmpty hc)
  have hi : (s.step .initShutdown).shutdownInitiated = true := rfl
  have hs : (s.step .initShutdown).step .closeMessages = (s.step .initShutdown).closeMessages := by
    show (if (s.step .initShutdown).shutdownInitiated = true then (s.step .initShutdown).closeMessages
      else (s.step .initShutdown)) = _
    rw [if_pos hi]
  refine ⟨?_, ?_, ?_, ?_⟩
  · show ((s.step .initShutdown).step .closeMessages).closed = true
    rw [hs]; exact hf.1
  · show ((s.step .initShutdown).step .closeMessages).chan = []
    rw [hs]; exact hf.2.1
  · show ((s.step .initShutdown).step .closeMessages).shutdownInitiated = true
    rw [hs, hf.2.2]; exact hi
  · intro t hc hch hw
    simp only [SQ.settle, SQ.step, SQ.workerExit, hw, hc, hch, ↓reduceIte, Bool.or_true]

/-! ## The regenerated tie: what the current source's producer can block on -/

open Gen.SpanQueue in
/-- a producer-side channel operation that cannot block: inside a `select` with a `default`, a `close`, or the drain of
the queue after `close` in `closeMessages` (a closed channel never blocks a receiver) -/
def opCannotBlock (ops : List Gen.SpanQueue.ChanOp) (o : Gen.SpanQueue.ChanOp) : Bool :=
  o.nonBlocking ||
  (o.kind == "range" && o.fn == "closeMessages" && o.chan == "to.messages" &&
    ops.any (fun c => c.fn == "closeMessages" && c.kind == "close" && c.chan == "to.messages"))

/-- **C16 (regenerated from the current trace_observer.go): the producer cannot block on the queue.**  Of all channel
operations reachable from `QueueBatch`, the only ones that can block are the reports to the supportability goroutine
(`to.supportability.increment`), which serves them unconditionally in its loop; every operation on `messages`,
`messagesSent` and the shutdown channels is non-blocking.  The credit channel is made with room for Q+1 batches (the
model's `creditBlocked` bound), the queue with Q, and the worker's receive sees a closed queue. -/
theorem C16_producer_ops_nonblocking :
    (Gen.SpanQueue.producerOps.all (fun o => opCannotBlock Gen.SpanQueue.producerOps o || o.chan == "to.supportability.increment")) = true ∧
    Gen.SpanQueue.producerOps.any (fun o => o.fn == "QueueBatch" && o.kind == "send" && o.chan == "to.messages") = true ∧
    Gen.SpanQueue.chanCaps = [("messages", "cfg.QueueSize"), ("messagesSent", "cfg.QueueSize+1")] ∧
    Gen.SpanQueue.workerChecksClosed = true := by
  decide

/-! ## Sanity: the hypotheses are met by non-trivial states, and the edge sizes behave as stated -/

example : ((SQ.init 10).run [.connectOk, .batch 8, .take, .batch 5]).remaining = 2 := by decide
example : ((SQ.init 10).run [.connectOk, .batch 8, .take, .batch 5]).dumped = 5 := by decide
example : ((SQ.init 3).run [.batch 0, .batch 0, .batch 0, .batch 0]).chan.length = 3 := by decide
example : ((SQ.init 0).run [.batch 1, .batch 0]).dumped = 1 := by decide
example : ((SQ.init 4).run [.batch 2, .batch 2, .batch 1]).chan = [1] := by decide
example : ((SQ.init 4).run [.batch 2, .batch 2, .batch 1]).dumped = 4 := by decide
example : ((SQ.init 4).run [.connectOk, .batch 2, .take, .initShutdown, .closeMessages, .sendDone true false, .take]).worker = .exited := by decide

/-! ## The queue size is the agent's to choose, the allocation is not -/

/-- **C16 (all queue sizes: what is allocated is bounded).**  Whatever size an agent announces (a `uint64` taken from the
App message), the queue `newTraceObserverWithWorker` makes has at most `maxQueueSize` slots — the bound regenerated from
trace_observer.go, which must exist — so no announced size can make the worker crash (`makechan: size out of range`) or
exhaust its memory when the run's queue is created.  All theorems above hold for the effective size, as for any size. -/
theorem C16_queue_allocation_bounded (configured : Nat) :
    Gen.SpanQueue.maxQueueSize ≠ 0 ∧ effectiveQueueSize configured ≤ Gen.SpanQueue.maxQueueSize ∧
    (configured ≤ Gen.SpanQueue.maxQueueSize → effectiveQueueSize configured = configured) := by
  have h0 : Gen.SpanQueue.maxQueueSize ≠ 0 := by decide
  refine ⟨h0, ?_, ?_⟩
  · unfold effectiveQueueSize
    split
    · exact Nat.le_refl _
    · rename_i h
      have : ¬ configured > Gen.SpanQueue.maxQueueSize := fun hc => h ⟨h0, hc⟩
      omega
  · intro h
    unfold effectiveQueueSize
    split
    · rename_i h2; omega
    · rfl

/-- `QueueBatch` today: refused after shutdown; dump when the batch does not fit; discard when it still does not fit; a
non-blocking send, the counter lowered only when the batch went in -/
def reviewedQueueBatch : List String := [
  "if to.isShutdownInitiated() {",
  "if !to.isShutdownComplete() {",
  "to.closeMessages(…)",
  "}",
  "return",
  "}",
  "if to.getRemainingQueueCapacity()<count {",
  "to.emptyQueue(…)",
  "}",
  "if to.messagesRemainingCapacity<count {",
  "to.discardBatch(…)",
  "return",
  "}",
  "b := &<*ast.CompositeLit>",
  "select {",
  "case to.messages <- b:",
  "to.messagesRemainingCapacity -= count",
  "default:",
  "to.discardBatch(…)",
  "}"
]

/-- **C16 (tie: the producer the machine transcribes is the code's).** -/
theorem C16_queuebatch_source_tied : Gen.Skeleton.queueBatch = reviewedQueueBatch := rfl


/-! ## Ties to the current source: the functions transcribed by the model have not changed since they were reviewed (`Props/Reviewed.lean`) -/

/-- **C16 (tie).**  `observerShutdown`: initShutdown, bounded wait, closeMessages. -/
theorem C16_shutdown_source_tied : Gen.Skeleton.observerShutdown = Reviewed.observerShutdown := rfl

/-- **C16 (tie).**  `doStreaming`: the worker's select: queue (closed = leave), response error, shutdown signal. -/
theorem C16_do_streaming_source_tied : Gen.Skeleton.doStreaming = Reviewed.doStreaming := rfl
