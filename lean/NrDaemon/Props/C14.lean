import NrDaemon.Model.Redact
import NrDaemon.Gen.LogSites
/-!
  C14 — credentials never reach the logs (the parts a model can carry: the two sanitisers, as non-interference
  statements: what is logged does not depend on the secret).
-/

/-- **C14 (license key).**  For keys longer than four characters the logged form depends on the key only through its
first two and last two characters: any two such keys that agree there are logged identically. -/
theorem C14_key_obfuscated (k1 k2 : Arg) (h1 : k1.length > 4) (h2 : k2.length > 4)
    (hp : k1.take 2 = k2.take 2) (hs : k1.drop (k1.length - 2) = k2.drop (k2.length - 2)) :
    licenseString k1 = licenseString k2 := by
  simp [licenseString, h1, h2, hp, hs]

/-- the logged form of a real (40 character) key is 6 characters long -/
theorem C14_key_short (k : Arg) (h : k.length > 4) : (licenseString k).length = 6 := by
  simp [licenseString, h]
  omega

theorem echoFrom_append (st : EchoState) (a b : List Arg) :
    echoFrom st (a ++ b) = echoFrom st a ++ echoFrom (stateAfter st a) b := by
  induction a generalizing st with
  | nil => rfl
  | cons x xs ih => simp [echoFrom, stateAfter, ih]

theorem splitEq1_lit (pre : Arg) (hpre : ∀ c ∈ pre, c ≠ '=') (rest : Arg) :
    splitEq1 (pre ++ '=' :: rest) = (pre, some rest) := by
  induction pre with
  | nil => simp [splitEq1]
  | cons c cs ih =>
    have hc : (c == '=') = false := by simpa using hpre c (by simp)
    have := ih (fun x hx => hpre x (by simp [hx]))
    simp [splitEq1, hc, this]

theorem dropWs_spaces (n : Nat) (c : Char) (rest : Arg) (hc : isWs c = false) :
    dropWs (List.replicate n ' ' ++ c :: rest) = c :: rest := by
  induction n with
  | zero => simp [dropWs, hc]
  | succ n ih => simp [List.replicate, dropWs, isWs, ih]

theorem redactDefine_proxy (w1 w2 : Nat) (v : Arg) :
    redactDefine (List.replicate w1 ' ' ++ 'p' :: 'r' :: 'o' :: 'x' :: 'y' :: (List.replicate w2 ' ' ++ '=' :: v)) =
      sProxy ++ ['='] ++ redacted := by
  unfold redactDefine
  rw [dropWs_spaces w1 'p' _ (by decide)]
  simp only
  rw [dropWs_spaces w2 '=' _ (by decide)]
  rfl

theorem split_two (n0 : Char) (ns v : Arg) (h : ∀ c ∈ ns, c ≠ '=') :
    splitFlagArg ('-' :: '-' :: n0 :: (ns ++ '=' :: v)) = (['-', '-'], n0 :: ns, v, true) := by
  simp [splitFlagArg, splitEq1_lit ns h v]

theorem split_one (n0 : Char) (ns v : Arg) (h : ∀ c ∈ ns, c ≠ '=') (hn : n0 ≠ '-') :
    splitFlagArg ('-' :: n0 :: (ns ++ '=' :: v)) = (['-'], n0 :: ns, v, true) := by
  have : (n0 == '-') = false := by simpa using hn
  simp [splitFlagArg, this, splitEq1_lit ns h v]

/-- `-proxy` / `--proxy` / `-x` / `--x` followed by the value in the next argument -/
theorem echo_sep (flag : Arg) (hf : flag ∈ [['-', 'p', 'r', 'o', 'x', 'y'], ['-', '-', 'p', 'r', 'o', 'x', 'y'], ['-', 'x'], ['-', '-', 'x']])
    (v : Arg) : echoFrom .idle [flag, v] = [flag, redacted] ∧ stateAfter .idle [flag, v] = .idle := by
  simp only [List.mem_cons, List.not_mem_nil, or_false] at hf
  rcases hf with rfl | rfl | rfl | rfl <;> exact ⟨rfl, rfl⟩

/-- `-proxy=v` / `--proxy=v` / `-x=v` / `--x=v` -/
theorem echo_eq_proxy (two : Bool) (v : Arg) :
    echoStep .idle ((if two then ['-', '-'] else ['-']) ++ 'p' :: 'r' :: 'o' :: 'x' :: 'y' :: '=' :: v) =
      ((if two then ['-', '-'] else ['-']) ++ 'p' :: 'r' :: 'o' :: 'x' :: 'y' :: '=' :: redacted, .idle) := by
  cases two
  · have := split_one 'p' ['r', 'o', 'x', 'y'] v (by decide) (by decide)
    simp only [List.cons_append, List.nil_append] at this
    simp [echoStep, this, sProxy, sX]
  · have := split_two 'p' ['r', 'o', 'x', 'y'] v (by decide)
    simp only [List.cons_append, List.nil_append] at this
    simp [echoStep, this, sProxy, sX]

theorem echo_eq_x (two : Bool) (v : Arg) :
    echoStep .idle ((if two then ['-', '-'] else ['-']) ++ 'x' :: '=' :: v) =
      ((if two then ['-', '-'] else ['-']) ++ 'x' :: '=' :: redacted, .idle) := by
  cases two
  · have := split_one 'x' [] v (by simp) (by decide)
    simp only [List.cons_append, List.nil_append] at this
    simp [echoStep, this, sProxy, sX]
  · have := split_two 'x' [] v (by simp)
    simp only [List.cons_append, List.nil_append] at this
    simp [echoStep, this, sProxy, sX]

/-- `-define` / `--define` followed by `proxy = v` (any spacing) in the next argument -/
theorem echo_define_sep (two : Bool) (w1 w2 : Nat) (v : Arg) :
    let flag := (if two then ['-', '-'] else ['-']) ++ sDefine
    let setting := List.replicate w1 ' ' ++ 'p' :: 'r' :: 'o' :: 'x' :: 'y' :: (List.replicate w2 ' ' ++ '=' :: v)
    echoFrom .idle [flag, setting] = [flag, sProxy ++ ['='] ++ redacted] ∧ stateAfter .idle [flag, setting] = .idle := by
  simp only
  have hstep : echoStep .idle ((if two then ['-', '-'] else ['-']) ++ sDefine) = ((if two then ['-', '-'] else ['-']) ++ sDefine, .defineNext) := by
    cases two <;> rfl
  refine ⟨?_, ?_⟩
  · simp only [echoFrom, hstep]
    simp only [echoStep, redactDefine_proxy]
  · simp only [stateAfter, hstep]
    simp only [echoStep]

/-- `-define=proxy = v` / `--define=proxy = v` -/
theorem echo_define_eq (two : Bool) (w1 w2 : Nat) (v : Arg) :
    echoStep .idle ((if two then ['-', '-'] else ['-']) ++ 'd' :: 'e' :: 'f' :: 'i' :: 'n' :: 'e' :: '=' ::
        (List.replicate w1 ' ' ++ 'p' :: 'r' :: 'o' :: 'x' :: 'y' :: (List.replicate w2 ' ' ++ '=' :: v))) =
      ((if two then ['-', '-'] else ['-']) ++ 'd' :: 'e' :: 'f' :: 'i' :: 'n' :: 'e' :: '=' :: (sProxy ++ ['='] ++ redacted), .idle) := by
  cases two
  · have := split_one 'd' ['e', 'f', 'i', 'n', 'e']
      (List.replicate w1 ' ' ++ 'p' :: 'r' :: 'o' :: 'x' :: 'y' :: (List.replicate w2 ' ' ++ '=' :: v)) (by decide) (by decide)
    simp only [List.cons_append, List.nil_append] at this
    simp [echoStep, this, sProxy, sX, sDefine, redactDefine_proxy]
  · have := split_two 'd' ['e', 'f', 'i', 'n', 'e']
      (List.replicate w1 ' ' ++ 'p' :: 'r' :: 'o' :: 'x' :: 'y' :: (List.replicate w2 ' ' ++ '=' :: v)) (by decide)
    simp only [List.cons_append, List.nil_append] at this
    simp [echoStep, this, sProxy, sX, sDefine, redactDefine_proxy]

/-- **C14 (ARGV echo, every spelling).**  Whatever precedes and follows it on the command line (the scanner being
between options), the echo of a command line does not depend on the proxy value `v`, for each way of spelling the
option: separate argument (new-style and legacy name, one or two dashes), `=`-joined, and through `--define` in both
forms with any spacing.  Two command lines that differ only in the proxy value are therefore logged identically. -/
theorem C14_argv_echo (pre post : List Arg) (hidle : stateAfter .idle pre = .idle) (v1 v2 : Arg) :
    (∀ flag ∈ [['-', 'p', 'r', 'o', 'x', 'y'], ['-', '-', 'p', 'r', 'o', 'x', 'y'], ['-', 'x'], ['-', '-', 'x']],
      echoArgs (pre ++ [flag, v1] ++ post) = echoArgs (pre ++ [flag, v2] ++ post)) ∧
    (∀ two : Bool, echoArgs (pre ++ [(if two then ['-', '-'] else ['-']) ++ 'p' :: 'r' :: 'o' :: 'x' :: 'y' :: '=' :: v1] ++ post) =
            echoArgs (pre ++ [(if two then ['-', '-'] else ['-']) ++ 'p' :: 'r' :: 'o' :: 'x' :: 'y' :: '=' :: v2] ++ post)) ∧
    (∀ two : Bool, echoArgs (pre ++ [(if two then ['-', '-'] else ['-']) ++ 'x' :: '=' :: v1] ++ post) =
            echoArgs (pre ++ [(if two then ['-', '-'] else ['-']) ++ 'x' :: '=' :: v2] ++ post)) ∧
    (∀ (two : Bool) (w1 w2 : Nat),
      echoArgs (pre ++ [(if two then ['-', '-'] else ['-']) ++ sDefine,
                        List.replicate w1 ' ' ++ 'p' :: 'r' :: 'o' :: 'x' :: 'y' :: (List.replicate w2 ' ' ++ '=' :: v1)] ++ post) =
      echoArgs (pre ++ [(if two then ['-', '-'] else ['-']) ++ sDefine,
                        List.replicate w1 ' ' ++ 'p' :: 'r' :: 'o' :: 'x' :: 'y' :: (List.replicate w2 ' ' ++ '=' :: v2)] ++ post)) ∧
    (∀ (two : Bool) (w1 w2 : Nat),
      echoArgs (pre ++ [(if two then ['-', '-'] else ['-']) ++ 'd' :: 'e' :: 'f' :: 'i' :: 'n' :: 'e' :: '=' ::
                        (List.replicate w1 ' ' ++ 'p' :: 'r' :: 'o' :: 'x' :: 'y' :: (List.replicate w2 ' ' ++ '=' :: v1))] ++ post) =
      echoArgs (pre ++ [(if two then ['-', '-'] else ['-']) ++ 'd' :: 'e' :: 'f' :: 'i' :: 'n' :: 'e' :: '=' ::
                        (List.replicate w1 ' ' ++ 'p' :: 'r' :: 'o' :: 'x' :: 'y' :: (List.replicate w2 ' ' ++ '=' :: v2))] ++ post)) := by
  unfold echoArgs
  have key : ∀ (a1 a2 : List Arg), echoFrom .idle a1 = echoFrom .idle a2 → stateAfter .idle a1 = stateAfter .idle a2 →
      echoFrom .idle (pre ++ a1 ++ post) = echoFrom .idle (pre ++ a2 ++ post) := by
    intro a1 a2 h1 h2
    rw [List.append_assoc, List.append_assoc, echoFrom_append .idle pre, echoFrom_append .idle pre, hidle,
        echoFrom_append .idle a1, echoFrom_append .idle a2, h1, h2]
  have one : ∀ x y : Arg, echoStep .idle x = echoStep .idle y →
      echoFrom .idle [x] = echoFrom .idle [y] ∧ stateAfter .idle [x] = stateAfter .idle [y] := by
    intro x y h
    simp [echoFrom, stateAfter, h]
  refine ⟨?_, ?_, ?_, ?_, ?_⟩
  · intro flag hf
    apply key
    · rw [(echo_sep flag hf v1).1, (echo_sep flag hf v2).1]
    · rw [(echo_sep flag hf v1).2, (echo_sep flag hf v2).2]
  · intro two
    have := one _ _ ((echo_eq_proxy two v1).trans (echo_eq_proxy two v2).symm)
    exact key _ _ this.1 this.2
  · intro two
    have := one _ _ ((echo_eq_x two v1).trans (echo_eq_x two v2).symm)
    exact key _ _ this.1 this.2
  · intro two w1 w2
    apply key
    · rw [(echo_define_sep two w1 w2 v1).1, (echo_define_sep two w1 w2 v2).1]
    · rw [(echo_define_sep two w1 w2 v1).2, (echo_define_sep two w1 w2 v2).2]
  · intro two w1 w2
    have := one _ _ ((echo_define_eq two w1 w2 v1).trans (echo_define_eq two w1 w2 v2).symm)
    exact key _ _ this.1 this.2

/-- non-vacuity: the idle-state hypothesis holds for ordinary prefixes -/
example : stateAfter .idle [['-', 'f'], ['-', '-', 'l', 'o', 'g', 'f', 'i', 'l', 'e'], ['/', 'x']] = .idle := by decide

/-! ## The inventory of credential-capable log sinks (regenerated: `Gen.LogSites`) -/

/-- the log calls of collector/, cmd/daemon and newrelic/ that receive an error, a license key, a URL, a proxy setting or a
struct with a `Proxy` / `License` field — as they were when the scans of this property were last reviewed -/
def reviewedLogSites : List String := [
  "cmd/daemon/main.go:run:Errorf:\"could not create pid file: %v\":err=err",
  "cmd/daemon/main.go:run:Errorf:\"could not write pid to file: %v\":err=err",
  "cmd/daemon/progenitor.go:runProgenitor:Errorf:\"unable to create watcher process: %v\":err=err",
  "cmd/daemon/progenitor.go:runProgenitor:Warnf:\"error isolating process group: %v\":err=err",
  "cmd/daemon/watcher.go:runWatcher:Errorf:\"unable to create worker: %v\":err=err",
  "cmd/daemon/worker.go:listenAndServe:Debugf:\"error sending signal to the progenitor process that the worker is ready: %v\":err=err",
  "cmd/daemon/worker.go:raiseFileLimit:Warnf:\"unable to increase file limit: %v\":err=err",
  "cmd/daemon/worker.go:raiseFileLimit:Warnf:?:err=err",
  "cmd/daemon/worker.go:raiseFileLimit:Warnf:?:err=err",
  "cmd/daemon/worker.go:runWorker:Debugf:\"pprof server error: %v\":err=err",
  "cmd/daemon/worker.go:runWorker:Errorf:\"%v\":err=err",
  "cmd/daemon/worker.go:runWorker:Errorf:\"unable to create client: %v\":err=err",
  "cmd/daemon/worker.go:runWorker:Errorf:\"unable to open audit log: %v\":err=err",
  "cmd/daemon/worker.go:runWorker:Infof:\"collector configuration is %+v\":struct=clientCfg",
  "internal/newrelic/app.go:ConnectPayloadInternal:Errorf:\"Cannot determine host name: %s\":err=err",
  "internal/newrelic/app.go:ConnectPayloadInternal:Errorf:\"Failed to set Agent Docker ID: %s\":err=err",
  "internal/newrelic/app.go:filterPhpPackages:Errorf:\"failed to unmarshal php package json: %s\":err=err",
  "internal/newrelic/collector/certs_system.go:init:Warnf:?:err=err",
  "internal/newrelic/collector/client.go:Execute:Audit:\"command='%s' url='%s' payload={%s}\":url=cleanURL",
  "internal/newrelic/collector/client.go:Execute:Audit:\"command='%s' url='%s', status=%d, response={%s}\":url=cleanURL",
  "internal/newrelic/collector/client.go:Execute:Debugf:\"attempt to perform %s failed: %q, url=%s\":url=cleanURL",
  "internal/newrelic/collector/client.go:Execute:Debugf:\"command='%s' url='%s' max_payload_size_in_bytes='%d' payload={%s}\":url=cleanURL",
  "internal/newrelic/collector/client.go:Execute:Debugf:\"command='%s' url='%s', status=%d, response={%s}\":url=cleanURL",
  "internal/newrelic/collector/client.go:Execute:Errorf:\"unable to create audit json payload for '%s': %s\":err=err",
  "internal/newrelic/listener.go:Serve:Debugf:\"accept error: %v, retrying in %v\":err=err",
  "internal/newrelic/listener.go:Serve:Errorf:\"listener: closing connection: %v\":err=err",
  "internal/newrelic/listener.go:Serve:Errorf:\"listener: closing connection: unable to write reply of length %d: %v\":err=err",
  "internal/newrelic/listener.go:Serve:Warnf:\"listener: protocol error: %v\":err=perr",
  "internal/newrelic/listener.go:serve:Debugf:\"listener: error closing client connection: %v\":err=err",
  "internal/newrelic/log_events.go:CollectorJSON:Errorf:\"failed to marshal log label: %s\":err=e",
  "internal/newrelic/log_events.go:SetLogForwardingLabels:Errorf:\"failed to unmarshal log labels json\":err=err",
  "internal/newrelic/metric_rules.go:NewMetricRulesFromJSON:Warnf:\"Unable to compile rule '%s': %s\":err=err",
  "internal/newrelic/pidfile.go:CreatePidFile:Debugf:\"pidfile: %v - retrying\":err=err",
  "internal/newrelic/processor.go:ConnectApplication:Errorf:\"Unable to connect application: %v\":err=err",
  "internal/newrelic/processor.go:ConnectApplication:Errorf:\"unable to connect application: %v\":err=err",
  "internal/newrelic/processor.go:doHarvest:Infof:\"removing %q with run id %q for lack of activity within %v\":struct=app",
  "internal/newrelic/processor.go:harvestPayload:Warnf:\"final harvest for run id %q: %s failed: %v\":err=reply.Err",
  "internal/newrelic/processor.go:integrationLog:Errorf:\"unable to create audit json payload for '%s': %s\":err=err",
  "internal/newrelic/processor.go:processAppInfo:Errorf:\"unable to add app '%s', limit of %d applications reached\":struct=m.Info",
  "internal/newrelic/processor.go:processConnectAttempt:Debugf:\"app '%s': ignoring the result of a superseded connect attempt\":struct=app",
  "internal/newrelic/processor.go:processConnectAttempt:Infof:\"app '%s' connected with run id '%s'\":struct=app",
  "internal/newrelic/processor.go:processConnectAttempt:Warnf:\"app '%s' connect attempt returned %s\":struct=app,err=rep.Err",
  "internal/newrelic/processor.go:processConnectAttempt:Warnf:\"app '%s' connect attempt returned %s; disconnecting\":struct=app,err=collector.NewRPMResponseError(rep.RawReply.Err).Err",
  "internal/newrelic/processor.go:processConnectAttempt:Warnf:\"app '%s' connect attempt returned %s; restarting\":struct=app,err=collector.NewRPMResponseError(rep.RawReply.Err).Err",
  "internal/newrelic/processor.go:processConnectAttempt:Warnf:\"app '%s' connect attempt returned %s; shutting down\":struct=app,err=collector.NewRPMResponseError(rep.RawReply.Err).Err",
  "internal/newrelic/processor.go:processHarvestError:Warnf:\"app %q with run id %q received %s\":struct=app,err=d.Reply.Err"
]

/-- **C14 (tie: no new credential-capable log sink).**  The inventory regenerated from the current source is the reviewed
one: every sink in it is exercised by the fault-injection and process-level scans (URL sinks receive `cleanURL`, the worker's
configuration line receives the redacted copy of the client configuration, errors pass `removeURLFromError` /
`NewRPMResponseError`).  A new or changed sink breaks this theorem and has to be reviewed (and the list updated) even if the
scan finds no leak on the inputs it tries. -/
theorem C14_log_sites_tied : Gen.LogSites.sites = reviewedLogSites := rfl
