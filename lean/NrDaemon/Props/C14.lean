import NrDaemon.Model.Redact
/-!
  C14 — credentials never reach the logs (the parts a model can carry: the two sanitisers, as non-interference
  statements: what is logged does not depend on the secret).
-/

/-- **C14 (license key).**  For keys longer than four characters the logged form depends on the key only through its
first two and last two characters: any two such keys that agree there are logged identically. -/
theorem C14_key_obfuscated (k1 k2 : Arg) (h1 : k1.length > 4) (h2 : k2.length > 4)
    (hp : k1.take 2 = k2.take 2) (hs : k1.drop (k1.length - 2) = k2.drop (k2.length - 2)) :
    licenseString k1 = licenseString k2 := by
  simp [licenseString, h1, h2, hp, hs]

/-- the logged form of a real (40 character) key is 6 characters long -/
theorem C14_key_short (k : Arg) (h : k.length > 4) : (licenseString k).length = 6 := by
  simp [licenseString, h]
  omega

theorem echoFrom_append (st : EchoState) (a b : List Arg) :
    echoFrom st (a ++ b) = echoFrom st a ++ echoFrom (stateAfter st a) b := by
  induction a generalizing st with
  | nil => rfl
  | cons x xs ih => simp [echoFrom, stateAfter, ih]

theorem splitEq1_lit (pre : Arg) (hpre : ∀ c ∈ pre, c ≠ '=') (rest : Arg) :
    splitEq1 (pre ++ '=' :: rest) = (pre, some rest) := by
  induction pre with
  | nil => simp [splitEq1]
  | cons c cs ih =>
    have hc : (c == '=') = false := by simpa using hpre c (by simp)
    have := ih (fun x hx => hpre x (by simp [hx]))
    simp [splitEq1, hc, this]

theorem dropWs_spaces (n : Nat) (c : Char) (rest : Arg) (hc : isWs c = false) :
    dropWs (List.replicate n ' ' ++ c :: rest) = c :: rest := by
  induction n with
  | zero => simp [dropWs, hc]
  | succ n ih => simp [List.replicate, dropWs, isWs, ih]

theorem redactDefine_proxy (w1 w2 : Nat) (v : Arg) :
    redactDefine (List.replicate w1 ' ' ++ 'p' :: 'r' :: 'o' :: 'x' :: 'y' :: (List.replicate w2 ' ' ++ '=' :: v)) =
      sProxy ++ ['='] ++ redacted := by
  unfold redactDefine
  rw [dropWs_spaces w1 'p' _ (by decide)]
  simp only
  rw [dropWs_spaces w2 '=' _ (by decide)]
  rfl

theorem split_two (n0 : Char) (ns v : Arg) (h : ∀ c ∈ ns, c ≠ '=') :
    splitFlagArg ('-' :: '-' :: n0 :: (ns ++ '=' :: v)) = (['-', '-'], n0 :: ns, v, true) := by
  simp [splitFlagArg, splitEq1_lit ns h v]

theorem split_one (n0 : Char) (ns v : Arg) (h : ∀ c ∈ ns, c ≠ '=') (hn : n0 ≠ '-') :
    splitFlagArg ('-' :: n0 :: (ns ++ '=' :: v)) = (['-'], n0 :: ns, v, true) := by
  have : (n0 == '-') = false := by simpa using hn
  simp [splitFlagArg, this, splitEq1_lit ns h v]

/-- `-proxy` / `--proxy` / `-x` / `--x` followed by the value in the next argument -/
theorem echo_sep (flag : Arg) (hf : flag ∈ [['-', 'p', 'r', 'o', 'x', 'y'], ['-', '-', 'p', 'r', 'o', 'x', 'y'], ['-', 'x'], ['-', '-', 'x']])
    (v : Arg) : echoFrom .idle [flag, v] = [flag, redacted] ∧ stateAfter .idle [flag, v] = .idle := by
  simp only [List.mem_cons, List.not_mem_nil, or_false] at hf
  rcases hf with rfl | rfl | rfl | rfl <;> exact ⟨rfl, rfl⟩

/-- `-proxy=v` / `--proxy=v` / `-x=v` / `--x=v` -/
theorem echo_eq_proxy (two : Bool) (v : Arg) :
    echoStep .idle ((if two then ['-', '-'] else ['-']) ++ 'p' :: 'r' :: 'o' :: 'x' :: 'y' :: '=' :: v) =
      ((if two then ['-', '-'] else ['-']) ++ 'p' :: 'r' :: 'o' :: 'x' :: 'y' :: '=' :: redacted, .idle) := by
  cases two
  · have := split_one 'p' ['r', 'o', 'x', 'y'] v (by decide) (by decide)
    simp only [List.cons_append, List.nil_append] at this
    simp [echoStep, this, sProxy, sX]
  · have := split_two 'p' ['r', 'o', 'x', 'y'] v (by decide)
    simp only [List.cons_append, List.nil_append] at this
    simp [echoStep, this, sProxy, sX]

theorem echo_eq_x (two : Bool) (v : Arg) :
    echoStep .idle ((if two then ['-', '-'] else ['-']) ++ 'x' :: '=' :: v) =
      ((if two then ['-', '-'] else ['-']) ++ 'x' :: '=' :: redacted, .idle) := by
  cases two
  · have := split_one 'x' [] v (by simp) (by decide)
    simp only [List.cons_append, List.nil_append] at this
    simp [echoStep, this, sProxy, sX]
  · have := split_two 'x' [] v (by simp)
    simp only [List.cons_append, List.nil_append] at this
    simp [echoStep, this, sProxy, sX]

/-- `-define` / `--define` followed by `proxy = v` (any spacing) in the next argument -/
theorem echo_define_sep (two : Bool) (w1 w2 : Nat) (v : Arg) :
    let flag := (if two then ['-', '-'] else ['-']) ++ sDefine
    let setting := List.replicate w1 ' ' ++ 'p' :: 'r' :: 'o' :: 'x' :: 'y' :: (List.replicate w2 ' ' ++ '=' :: v)
    echoFrom .idle [flag, setting] = [flag, sProxy ++ ['='] ++ redacted] ∧ stateAfter .idle [flag, setting] = .idle := by
  simp only
  have hstep : echoStep .idle ((if two then ['-', '-'] else ['-']) ++ sDefine) = ((if two then ['-', '-'] else ['-']) ++ sDefine, .defineNext) := by
    cases two <;> rfl
  refine ⟨?_, ?_⟩
  · simp only [echoFrom, hstep]
    simp only [echoStep, redactDefine_proxy]
  · simp only [stateAfter, hstep]
    simp only [echoStep]

/-- `-define=proxy = v` / `--define=proxy = v` -/
theorem echo_define_eq (two : Bool) (w1 w2 : Nat) (v : Arg) :
    echoStep .idle ((if two then ['-', '-'] else ['-']) ++ 'd' :: 'e' :: 'f' :: 'i' :: 'n' :: 'e' :: '=' ::
        (List.replicate w1 ' ' ++ 'p' :: 'r' :: 'o' :: 'x' :: 'y' :: (List.replicate w2 ' ' ++ '=' :: v))) =
      ((if two then ['-', '-'] else ['-']) ++ 'd' :: 'e' :: 'f' :: 'i' :: 'n' :: 'e' :: '=' :: (sProxy ++ ['='] ++ redacted), .idle) := by
  cases two
  · have := split_one 'd' ['e', 'f', 'i', 'n', 'e']
      (List.replicate w1 ' ' ++ 'p' :: 'r' :: 'o' :: 'x' :: 'y' :: (List.replicate w2 ' ' ++ '=' :: v)) (by decide) (by decide)
    simp only [List.cons_append, List.nil_append] at this
    simp [echoStep, this, sProxy, sX, sDefine, redactDefine_proxy]
  · have := split_two 'd' ['e', 'f', 'i', 'n', 'e']
      (List.replicate w1 ' ' ++ 'p' :: 'r' :: 'o' :: 'x' :: 'y' :: (List.replicate w2 ' ' ++ '=' :: v)) (by decide)
    simp only [List.cons_append, List.nil_append] at this
    simp [echoStep, this, sProxy, sX, sDefine, redactDefine_proxy]

/-- **C14 (ARGV echo, every spelling).**  Whatever precedes and follows it on the command line (the scanner being
between options), the echo of a command line does not depend on the proxy value `v`, for each way of spelling the
option: separate argument (new-style and legacy name, one or two dashes), `=`-joined, and through `--define` in both
forms with any spacing.  Two command lines that differ only in the proxy value are therefore logged identically. -/
theorem C14_argv_echo (pre post : List Arg) (hidle : stateAfter .idle pre = .idle) (v1 v2 : Arg) :
    (∀ flag ∈ [['-', 'p', 'r', 'o', 'x', 'y'], ['-', '-', 'p', 'r', 'o', 'x', 'y'], ['-', 'x'], ['-', '-', 'x']],
      echoArgs (pre ++ [flag, v1] ++ post) = echoArgs (pre ++ [flag, v2] ++ post)) ∧
    (∀ two : Bool, echoArgs (pre ++ [(if two then ['-', '-'] else ['-']) ++ 'p' :: 'r' :: 'o' :: 'x' :: 'y' :: '=' :: v1] ++ post) =
            echoArgs (pre ++ [(if two then ['-', '-'] else ['-']) ++ 'p' :: 'r' :: 'o' :: 'x' :: 'y' :: '=' :: v2] ++ post)) ∧
    (∀ two : Bool, echoArgs (pre ++ [(if two then ['-', '-'] else ['-']) ++ 'x' :: '=' :: v1] ++ post) =
            echoArgs (pre ++ [(if two then ['-', '-'] else ['-']) ++ 'x' :: '=' :: v2] ++ post)) ∧
    (∀ (two : Bool) (w1 w2 : Nat),
      echoArgs (pre ++ [(if two then ['-', '-'] else ['-']) ++ sDefine,
                        List.replicate w1 ' ' ++ 'p' :: 'r' :: 'o' :: 'x' :: 'y' :: (List.replicate w2 ' ' ++ '=' :: v1)] ++ post) =
      echoArgs (pre ++ [(if two then ['-', '-'] else ['-']) ++ sDefine,
                        List.replicate w1 ' ' ++ 'p' :: 'r' :: 'o' :: 'x' :: 'y' :: (List.replicate w2 ' ' ++ '=' :: v2)] ++ post)) ∧
    (∀ (two : Bool) (w1 w2 : Nat),
      echoArgs (pre ++ [(if two then ['-', '-'] else ['-']) ++ 'd' :: 'e' :: 'f' :: 'i' :: 'n' :: 'e' :: '=' ::
                        (List.replicate w1 ' ' ++ 'p' :: 'r' :: 'o' :: 'x' :: 'y' :: (List.replicate w2 ' ' ++ '=' :: v1))] ++ post) =
      echoArgs (pre ++ [(if two then ['-', '-'] else ['-']) ++ 'd' :: 'e' :: 'f' :: 'i' :: 'n' :: 'e' :: '=' ::
                        (List.replicate w1 ' ' ++ 'p' :: 'r' :: 'o' :: 'x' :: 'y' :: (List.replicate w2 ' ' ++ '=' :: v2))] ++ post)) := by
  unfold echoArgs
  have key : ∀ (a1 a2 : List Arg), echoFrom .idle a1 = echoFrom .idle a2 → stateAfter .idle a1 = stateAfter .idle a2 →
      echoFrom .idle (pre ++ a1 ++ post) = echoFrom .idle (pre ++ a2 ++ post) := by
    intro a1 a2 h1 h2
    rw [List.append_assoc, List.append_assoc, echoFrom_append .idle pre, echoFrom_append .idle pre, hidle,
        echoFrom_append .idle a1, echoFrom_append .idle a2, h1, h2]
  have one : ∀ x y : Arg, echoStep .idle x = echoStep .idle y →
      echoFrom .idle [x] = echoFrom .idle [y] ∧ stateAfter .idle [x] = stateAfter .idle [y] := by
    intro x y h
    simp [echoFrom, stateAfter, h]
  refine ⟨?_, ?_, ?_, ?_, ?_⟩
  · intro flag hf
    apply key
    · rw [(echo_sep flag hf v1).1, (echo_sep flag hf v2).1]
    · rw [(echo_sep flag hf v1).2, (echo_sep flag hf v2).2]
  · intro two
    have := one _ _ ((echo_eq_proxy two v1).trans (echo_eq_proxy two v2).symm)
    exact key _ _ this.1 this.2
  · intro two
    have := one _ _ ((echo_eq_x two v1).trans (echo_eq_x two v2).symm)
    exact key _ _ this.1 this.2
  · intro two w1 w2
    apply key
    · rw [(echo_define_sep two w1 w2 v1).1, (echo_define_sep two w1 w2 v2).1]
    · rw [(echo_define_sep two w1 w2 v1).2, (echo_define_sep two w1 w2 v2).2]
  · intro two w1 w2
    have := one _ _ ((echo_define_eq two w1 w2 v1).trans (echo_define_eq two w1 w2 v2).symm)
    exact key _ _ this.1 this.2

/-- non-vacuity: the idle-state hypothesis holds for ordinary prefixes -/
example : stateAfter .idle [['-', 'f'], ['-', '-', 'l', 'o', 'g', 'f', 'i', 'l', 'e'], ['/', 'x']] = .idle := by decide
