/-!
  The decision skeletons (conditions, assignments, calls with their arguments, channel operations, returns; logging left
  out) of the functions the processor / container / handshake models transcribe, AS THEY WERE WHEN THE MODELS WERE LAST
  REVIEWED AGAINST THEM.  `Gen/Skeleton.lean` is regenerated from the current source on every run; the `*_source_tied`
  theorems in the property files state that the two agree.  When one of them breaks, the function has changed: the model
  (and these lists) must be reviewed against it — the check meanwhile reports the property as no longer shown.
-/
namespace Reviewed

/-- skeleton of `Processor.doHarvest` (daemon/internal/newrelic/processor.go): conditions, assignments, calls (logging left out), channel operations, returns -/
def doHarvest : List String := [
  "app := ph.AppHarvest.App",
  "harvestType := ph.Type",
  "id := ph.ID",
  "if p.cfg.AppTimeout>0&&app.Inactive(p.cfg.AppTimeout) {",
  "numapps := len(p.apps)",
  "if numapps==limits.AppLimitNotifyLow {",
  "}",
  "p.shutdownAppHarvest(id)",
  "delete(p.apps, app.Key())",
  "return",
  "}",
  "args := harvestArgs{HarvestStart: time.Now(), id: id, license: app.info.License, collector: app.collector, agentLanguage: app.info.AgentLanguage, agentVersion: app.info.AgentVersion, rules: app.connectReply.MetricRules, harvestErrorChannel: p.harvestErrorChannel, client: p.cfg.Client, RequestHeadersMap: app.connectReply.RequestHeadersMap, maxPayloadSize: app.connectReply.MaxPayloadSizeInBytes, splitLargePayloads: app.info.Settings[\"newrelic.distributed_tracing_enabled\"]==true, blocking: ph.Blocking}",
  "harvestByType(ph.AppHarvest, &args, harvestType, p.dataUsageChannel)"
]

/-- skeleton of `.harvestAll` (daemon/internal/newrelic/processor.go): conditions, assignments, calls (logging left out), channel operations, returns -/
def harvestAll : List String := [
  "harvest.createFinalMetrics(harvestLimits, to)",
  "harvest.Metrics = harvest.Metrics.ApplyRules(args.rules)",
  "duc := newDataUsageController(du_chan)",
  "considerHarvestPayload(harvest.Metrics, args, duc)",
  "considerHarvestPayload(harvest.CustomEvents, args, duc)",
  "considerHarvestPayload(harvest.ErrorEvents, args, duc)",
  "considerHarvestPayload(harvest.Errors, args, duc)",
  "considerHarvestPayload(harvest.SlowSQLs, args, duc)",
  "considerHarvestPayload(harvest.TxnTraces, args, duc)",
  "considerHarvestPayloadTxnEvents(harvest.TxnEvents, args, duc)",
  "considerHarvestPayload(harvest.SpanEvents, args, duc)",
  "considerHarvestPayload(harvest.LogEvents, args, duc)",
  "considerHarvestPayload(harvest.PhpPackages, args, duc)",
  "if args.blocking {",
  "harvestDataUsage(args, duc)",
  "}",
  "else {",
  "go harvestDataUsage(args, duc)",
  "}"
]

/-- skeleton of `.harvestByType` (daemon/internal/newrelic/processor.go): conditions, assignments, calls (logging left out), channel operations, returns -/
def harvestByType : List String := [
  "harvest := ah.Harvest",
  "skip_data_usage := false",
  "if harvest.empty() {",
  "skip_data_usage = true",
  "}",
  "if ht&HarvestAll==HarvestAll {",
  "ah.Harvest = NewHarvest(time.Now(), ah.App.connectReply.EventHarvestConfig.EventConfigs)",
  "harvest.PhpPackages.data = ah.App.filterPhpPackages(harvest.PhpPackages.data)",
  "if args.blocking {",
  "harvestAll(harvest, args, ah.connectReply.EventHarvestConfig, ah.TraceObserver, du_chan)",
  "}",
  "else {",
  "go harvestAll(harvest, args, ah.connectReply.EventHarvestConfig, ah.TraceObserver, du_chan)",
  "}",
  "return",
  "}",
  "duc := newDataUsageController(du_chan)",
  "if ht&HarvestDefaultData==HarvestDefaultData {",
  "harvest.createFinalMetrics(ah.connectReply.EventHarvestConfig, ah.TraceObserver)",
  "harvest.Metrics = harvest.Metrics.ApplyRules(args.rules)",
  "metrics := harvest.Metrics",
  "errors := harvest.Errors",
  "slowSQLs := harvest.SlowSQLs",
  "txnTraces := harvest.TxnTraces",
  "phpPackages := harvest.PhpPackages",
  "phpPackages.data = ah.App.filterPhpPackages(phpPackages.data)",
  "harvest.Metrics = NewMetricTable(limits.MaxMetrics, time.Now())",
  "harvest.Errors = NewErrorHeap(limits.MaxErrors)",
  "harvest.SlowSQLs = NewSlowSQLs(limits.MaxSlowSQLs)",
  "harvest.TxnTraces = NewTxnTraces()",
  "harvest.PhpPackages = NewPhpPackages()",
  "harvest.commandsProcessed = 0",
  "harvest.pidSet = make(<*ast.MapType>)",
  "considerHarvestPayload(metrics, args, duc)",
  "considerHarvestPayload(errors, args, duc)",
  "considerHarvestPayload(slowSQLs, args, duc)",
  "considerHarvestPayload(txnTraces, args, duc)",
  "considerHarvestPayload(phpPackages, args, duc)",
  "}",
  "eventConfigs := ah.App.connectReply.EventHarvestConfig.EventConfigs",
  "if ht&HarvestCustomEvents==HarvestCustomEvents&&eventConfigs.CustomEventConfig.Limit!=0 {",
  "customEvents := harvest.CustomEvents",
  "harvest.CustomEvents = NewCustomEvents(eventConfigs.CustomEventConfig.Limit)",
  "considerHarvestPayload(customEvents, args, duc)",
  "}",
  "if ht&HarvestErrorEvents==HarvestErrorEvents&&eventConfigs.ErrorEventConfig.Limit!=0 {",
  "errorEvents := harvest.ErrorEvents",
  "harvest.ErrorEvents = NewErrorEvents(eventConfigs.ErrorEventConfig.Limit)",
  "considerHarvestPayload(errorEvents, args, duc)",
  "}",
  "if ht&HarvestTxnEvents==HarvestTxnEvents&&eventConfigs.AnalyticEventConfig.Limit!=0 {",
  "txnEvents := harvest.TxnEvents",
  "harvest.TxnEvents = NewTxnEvents(eventConfigs.AnalyticEventConfig.Limit)",
  "considerHarvestPayloadTxnEvents(txnEvents, args, duc)",
  "}",
  "if ht&HarvestSpanEvents==HarvestSpanEvents&&eventConfigs.SpanEventConfig.Limit!=0 {",
  "spanEvents := harvest.SpanEvents",
  "harvest.SpanEvents = NewSpanEvents(eventConfigs.SpanEventConfig.Limit)",
  "considerHarvestPayload(spanEvents, args, duc)",
  "}",
  "if ht&HarvestLogEvents==HarvestLogEvents&&eventConfigs.LogEventConfig.Limit!=0 {",
  "logEvents := harvest.LogEvents",
  "harvest.LogEvents = NewLogEvents(eventConfigs.LogEventConfig.Limit)",
  "considerHarvestPayload(logEvents, args, duc)",
  "}",
  "if ht&HarvestDefaultData==HarvestDefaultData {",
  "if !skip_data_usage {",
  "if args.blocking {",
  "harvestDataUsage(args, duc)",
  "}",
  "else {",
  "go harvestDataUsage(args, duc)",
  "}",
  "}",
  "}"
]

/-- skeleton of `Processor.considerConnect` (daemon/internal/newrelic/processor.go): conditions, assignments, calls (logging left out), channel operations, returns -/
def considerConnect : List String := [
  "now := time.Now()",
  "if !p.shouldConnect(app,now) {",
  "return",
  "}",
  "app.lastConnectAttempt = now",
  "dataRaw := app.info.ConnectPayload(p.util)",
  "args := &ConnectArgs{RedirectCollector: app.info.RedirectCollector, PayloadRaw: dataRaw, License: app.info.License, SecurityPolicyToken: app.info.SecurityPolicyToken, HighSecurity: app.info.HighSecurity, Client: p.cfg.Client, AppKey: app.Key(), AgentLanguage: app.info.AgentLanguage, AgentVersion: app.info.AgentVersion, AgentEventLimits: app.info.AgentEventLimits, AppSupportedSecurityPolicies: app.info.SupportedSecurityPolicies}",
  "go func(){p.connectAttemptChannel <- ConnectApplication(args)}()"
]

/-- skeleton of `.ConnectApplication` (daemon/internal/newrelic/processor.go): conditions, assignments, calls (logging left out), channel operations, returns -/
def connectApplication : List String := [
  "rep := ConnectAttempt{Key: args.AppKey}",
  "preconnectReply := PreconnectReply{}",
  "args.Payload, err = EncodePayload(&RawPreconnectPayload{SecurityPolicyToken: args.SecurityPolicyToken, HighSecurity: args.HighSecurity})",
  "if err!=nil {",
  "rep.Err = err",
  "return rep",
  "}",
  "collectorHostname := collector.CalculatePreconnectHost(args.License, args.RedirectCollector)",
  "cs := collector.RpmControls{AgentLanguage: args.AgentLanguage, AgentVersion: args.AgentVersion, Collectible: collector.CollectibleFunc(func(){…})}",
  "cmd := collector.RpmCmd{Name: collector.CommandPreconnect, Collector: collectorHostname, License: args.License, MaxPayloadSize: limits.DefaultMaxPayloadSizeInBytes}",
  "rep.RawReply = args.Client.Execute(&cmd, cs)",
  "if nil!=rep.RawReply.Err {",
  "rep.Err = rep.RawReply.Err",
  "return rep",
  "}",
  "rep.Err = json.Unmarshal(rep.RawReply.Body, &preconnectReply)",
  "if nil!=rep.Err {",
  "return rep",
  "}",
  "err = nil",
  "if \"\"!=args.SecurityPolicyToken {",
  "_, err = args.AppSupportedSecurityPolicies.verifySecurityPolicies(preconnectReply)",
  "}",
  "if nil!=err {",
  "rep.Err = err",
  "return rep",
  "}",
  "policyReturnMap := make(<*ast.MapType>)",
  "for range preconnectReply.SecurityPolicies {",
  "policyReturnMap[k] = v.Enabled",
  "}",
  "rep.RawSecurityPolicies, rep.Err = json.Marshal(policyReturnMap)",
  "if nil!=rep.Err {",
  "return rep",
  "}",
  "err = nil",
  "if \"\"!=args.SecurityPolicyToken {",
  "err = args.AppSupportedSecurityPolicies.addPoliciesToPayload(preconnectReply.SecurityPolicies, args.PayloadRaw)",
  "}",
  "if nil!=err {",
  "rep.Err = err",
  "return rep",
  "}",
  "args.Payload, err = EncodePayload(&args.PayloadRaw)",
  "if err!=nil {",
  "rep.Err = err",
  "return rep",
  "}",
  "rep.Collector = preconnectReply.Collector",
  "cmd.Collector = rep.Collector",
  "cs.Collectible = collector.CollectibleFunc(func(){…})",
  "cmd.Name = collector.CommandConnect",
  "rep.RawReply = args.Client.Execute(&cmd, cs)",
  "if nil!=rep.RawReply.Err {",
  "rep.Err = rep.RawReply.Err",
  "return rep",
  "}",
  "processConnectMessages(rep.RawReply)",
  "rep.Reply, rep.Err = parseConnectReply(rep.RawReply.Body)",
  "return rep"
]

/-- skeleton of `Processor.Run` (daemon/internal/newrelic/processor.go): conditions, assignments, calls (logging left out), channel operations, returns -/
def runLoop : List String := [
  "utilChan := make(<*ast.ChanType>, 1)",
  "go func(){utilChan <- utilization.Gather(p.cfg.UtilConfig)}()",
  "for {",
  "select {",
  "case … := <-p.appInfoChannel:",
  "p.processAppInfo(d)",
  "case <-p.quitChan:",
  "return nil",
  "default:",
  "select {",
  "case … := <-utilChan:",
  "p.util = d",
  "utilChan = nil",
  "case <-p.quitChan:",
  "return nil",
  "case … := <-p.processorHarvestChan:",
  "p.doHarvest(d)",
  "case … := <-p.txnDataChannel:",
  "p.processTxnData(d)",
  "case … := <-p.appInfoChannel:",
  "p.processAppInfo(d)",
  "case … := <-p.spanBatchChannel:",
  "p.processSpanBatch(d)",
  "case … := <-p.connectAttemptChannel:",
  "p.processConnectAttempt(d)",
  "case … := <-p.harvestErrorChannel:",
  "p.processHarvestError(d)",
  "}",
  "}",
  "if nil!=p.trackProgress {",
  "p.trackProgress <- <*ast.StructType>{}",
  "}",
  "}"
]

/-- skeleton of `AgentPolicies.verifySecurityPolicies` (daemon/internal/newrelic/lasp.go): conditions, assignments, calls (logging left out), channel operations, returns -/
def verifySecurityPolicies : List String := [
  "if 0==len(ap.Policies) {",
  "return false, errPoliciesEmpty(\"Policy Map from agent was empty when verifying\")",
  "}",
  "if 0==len(preconnectReply.SecurityPolicies) {",
  "return false, errPoliciesEmpty(\"Policy map from preconnect was empty when when verifying\")",
  "}",
  "for range preconnectReply.SecurityPolicies {",
  "if !pcPolicy.Required {",
  "continue",
  "}",
  "if !ok {",
  "return false, errRequiredPolicyNotSupported(fmt.Sprintf(\"%v\", pcPolicyName))",
  "}",
  "policy := ap.Policies[pcPolicyName]",
  "if !policy.Supported {",
  "return false, errRequiredPolicyNotSupported(fmt.Sprintf(\"%v\", pcPolicyName))",
  "}",
  "}",
  "for range ap.Policies {",
  "if !ok {",
  "return false, errPolicyMissingFromPreconnect(fmt.Sprintf(\"%v\", key))",
  "}",
  "}",
  "return true, nil"
]

/-- skeleton of `AgentPolicies.addPoliciesToPayload` (daemon/internal/newrelic/lasp.go): conditions, assignments, calls (logging left out), channel operations, returns -/
def addPoliciesToPayload : List String := [
  "if 0==len(ap.Policies) {",
  "return errPoliciesEmpty(\"Policy Map from agent was empty when adding to payload\")",
  "}",
  "if 0==len(preconnectPolicies) {",
  "return errPoliciesEmpty(\"Policy map from preconnect was empty when adding to payload\")",
  "}",
  "payload.SecurityPolicies = make(<*ast.MapType>)",
  "for range ap.Policies {",
  "if !policy.Supported {",
  "continue",
  "}",
  "enabled := (policy.Enabled&&preconnectPolicies[name].Enabled)",
  "payload.SecurityPolicies[name] = SecurityPolicy{Enabled: enabled}",
  "}",
  "return nil"
]

/-- skeleton of `MetricTable.ApplyRules` (daemon/internal/newrelic/metrics.go): conditions, assignments, calls (logging left out), channel operations, returns -/
def applyRules : List String := [
  "if nil==rules {",
  "return mt",
  "}",
  "if len(rules)==0 {",
  "return mt",
  "}",
  "applied := NewMetricTable(math.MaxInt, mt.metricPeriodStart)",
  "applied.failedHarvests = mt.failedHarvests",
  "applied.unrenamed = mt",
  "for range mt.metrics {",
  "_, out := rules.Apply(name)",
  "if out!=name {",
  "}",
  "for range s {",
  "applied.mergeMetric(nil, out, scope, metric)",
  "}",
  "}",
  "applied.maxTableSize = mt.maxTableSize",
  "return applied"
]

/-- skeleton of `MetricTable.FailedHarvest` (daemon/internal/newrelic/metrics.go): conditions, assignments, calls (logging left out), channel operations, returns -/
def metricsFailedHarvest : List String := [
  "if nil!=mt.unrenamed {",
  "newHarvest.Metrics.MergeFailed(mt.unrenamed)",
  "return",
  "}",
  "newHarvest.Metrics.MergeFailed(mt)"
]

/-- skeleton of `MetricTable.MergeFailed` (daemon/internal/newrelic/metrics.go): conditions, assignments, calls (logging left out), channel operations, returns -/
def metricsMergeFailed : List String := [
  "fails := from.failedHarvests+1",
  "if fails>limits.FailedMetricAttemptsLimit {",
  "return",
  "}",
  "if from.metricPeriodStart.Before(mt.metricPeriodStart) {",
  "mt.metricPeriodStart = from.metricPeriodStart",
  "}",
  "mt.failedHarvests = fails",
  "mt.Merge(from)"
]

/-- skeleton of `analyticsEvents.MergeFailed` (daemon/internal/newrelic/analytics_events.go): conditions, assignments, calls (logging left out), channel operations, returns -/
def eventsMergeFailed : List String := [
  "fails := other.failedHarvests+1",
  "if fails>limits.FailedEventsAttemptsLimit {",
  "return",
  "}",
  "events.failedHarvests = fails",
  "events.Merge(other)"
]

/-- skeleton of `analyticsEvents.Split` (daemon/internal/newrelic/analytics_events.go): conditions, assignments, calls (logging left out), channel operations, returns -/
def eventsSplit : List String := [
  "eventHeap := *events.events",
  "eventHeap1 := make(analyticsEventHeap, len(eventHeap)/2)",
  "eventHeap2 := make(analyticsEventHeap, len(eventHeap)-len(eventHeap1))",
  "e1 := &analyticsEvents{numSeen: len(eventHeap1), events: &eventHeap1, failedHarvests: events.failedHarvests}",
  "e2 := &analyticsEvents{numSeen: len(eventHeap2), events: &eventHeap2, failedHarvests: events.failedHarvests}",
  "copy(*e1.events, eventHeap)",
  "copy(*e2.events, <*ast.SliceExpr>)",
  "return e1, e2"
]

/-- skeleton of `LogEvents.SetLogForwardingLabels` (daemon/internal/newrelic/log_events.go): conditions, assignments, calls (logging left out), channel operations, returns -/
def setLogForwardingLabels : List String := [
  "err := json.Unmarshal(data, &events.LogForwardingLabels)",
  "if nil!=err {",
  "}",
  "for range events.LogForwardingLabels {",
  "if len(events.LogForwardingLabels[idx].LabelType)==0||len(events.LogForwardingLabels[idx].LabelValue)==0 {",
  "events.LogForwardingLabels = nil",
  "break",
  "}",
  "}"
]

/-- skeleton of `LogEvents.CollectorJSON` (daemon/internal/newrelic/log_events.go): conditions, assignments, calls (logging left out), channel operations, returns -/
def logCollectorJSON : List String := [
  "buf := &bytes.Buffer{}",
  "es := *events.analyticsEvents.events",
  "estimate := len(es)*128",
  "buf.Grow(estimate)",
  "buf.WriteString(`[{`+`\"common\": {\"attributes\": `)",
  "nwrit := 0",
  "labelMap := make(<*ast.MapType>)",
  "for range events.LogForwardingLabels {",
  "if len(label.LabelType)!=0&&len(label.LabelValue)!=0 {",
  "labelMap[\"tags.\"+label.LabelType] = label.LabelValue",
  "}",
  "}",
  "j, e := json.Marshal(labelMap)",
  "if e!=nil {",
  "buf.WriteString(\"{}\")",
  "}",
  "else {",
  "buf.Write(j)",
  "}",
  "buf.WriteString(`},`+`\"logs\": [`)",
  "nwrit = 0",
  "for i<len(es) {",
  "if len(es[i].data)<4 {",
  "continue",
  "}",
  "if nwrit>0 {",
  "buf.WriteByte(',')",
  "}",
  "buf.Write(es[i].data)",
  "}",
  "buf.WriteByte(']')",
  "buf.WriteByte('}')",
  "buf.WriteByte(']')",
  "return buf.Bytes(), nil"
]

/-- skeleton of `.aggregateMetrics` (daemon/internal/newrelic/commands.go): conditions, assignments, calls (logging left out), channel operations, returns -/
def aggregateMetrics : List String := [
  "n := txn.MetricsLength()",
  "for i<n {",
  "txn.Metrics(&m, i)",
  "m.Data(&data)",
  "d[0] = data.Count()",
  "d[1] = data.Total()",
  "d[2] = data.Exclusive()",
  "d[3] = data.Min()",
  "d[4] = data.Max()",
  "d[5] = data.SumSquares()",
  "forced := Unforced",
  "if data.Forced()!=false {",
  "forced = Forced",
  "}",
  "metricName := m.Name()",
  "h.Metrics.AddRaw(metricName, \"\", \"\", d, forced)",
  "if data.Scoped()!=false {",
  "h.Metrics.AddRaw(metricName, \"\", txnName, d, forced)",
  "}",
  "}"
]

/-- skeleton of `TraceObserver.Shutdown` (daemon/internal/newrelic/infinite_tracing/trace_observer.go): conditions, assignments, calls (logging left out), channel operations, returns -/
def observerShutdown : List String := [
  "to.initShutdown()",
  "ticker := time.NewTicker(timeout)",
  "defer ticker.Stop()",
  "select {",
  "case <-to.shutdownComplete:",
  "err = nil",
  "case <-ticker.C:",
  "err = errors.New(\"timeout exceeded while waiting for trace observer shutdown to complete\")",
  "}",
  "to.closeMessages()",
  "return err"
]

/-- skeleton of `TraceObserver.doStreaming` (daemon/internal/newrelic/infinite_tracing/trace_observer.go): conditions, assignments, calls (logging left out), channel operations, returns -/
def doStreaming : List String := [
  "if err!=nil {",
  "to.supportabilityError(status)",
  "return status",
  "}",
  "for {",
  "select {",
  "case … := <-to.messages:",
  "if !ok {",
  "return spanBatchSenderStatus{code: statusShutdown}",
  "}",
  "if err!=nil {",
  "to.messagesSent <- msg.count",
  "to.supportability.dataUsage <- 0.0",
  "to.supportabilityError(status)",
  "return status",
  "}",
  "else {",
  "to.messagesSent <- msg.count",
  "to.supportability.incrementSent <- float64(msg.count)",
  "to.supportability.dataUsage <- float64(len(msg.batch))",
  "}",
  "case … := <-to.responseError:",
  "to.supportabilityError(status)",
  "return status",
  "case <-to.initiateShutdown:",
  "return spanBatchSenderStatus{code: statusShutdown}",
  "}",
  "}"
]

/-- skeleton of `.harvestPayload` (daemon/internal/newrelic/processor.go): conditions, assignments, calls (logging left out), channel operations, returns -/
def harvestPayload : List String := [
  "defer duc.wg.Done()",
  "cmd := collector.RpmCmd{Name: p.Cmd(), Collector: args.collector, License: args.license, RunID: args.id.String(), RequestHeadersMap: args.RequestHeadersMap, MaxPayloadSize: args.maxPayloadSize}",
  "cs := collector.RpmControls{AgentLanguage: args.agentLanguage, AgentVersion: args.agentVersion, Collectible: collector.CollectibleFunc(func(){…})}",
  "reply := args.client.Execute(&cmd, cs)",
  "if nil==reply.Err {",
  "addDataUsage(duc.duc, cmd.Name, len(cmd.Data), len(reply.Body))",
  "return",
  "}",
  "addDataUsage(duc.duc, cmd.Name, 0, len(reply.Body))",
  "if args.blocking {",
  "return",
  "}",
  "args.harvestErrorChannel <- HarvestError{Reply: reply, id: args.id, data: p}"
]

/-- skeleton of `.considerHarvestPayload` (daemon/internal/newrelic/processor.go): conditions, assignments, calls (logging left out), channel operations, returns -/
def considerHarvestPayload : List String := [
  "if p.Empty() {",
  "return",
  "}",
  "duc.wg.Add(1)",
  "if args.blocking {",
  "harvestPayload(p, args, duc)",
  "}",
  "else {",
  "go harvestPayload(p, args, duc)",
  "}"
]

/-- skeleton of `.newAnalyticsEvents` (daemon/internal/newrelic/analytics_events.go): conditions, assignments, calls (logging left out), channel operations, returns -/
def newAnalyticsEvents : List String := [
  "h := make(analyticsEventHeap, 0, max)",
  "return &analyticsEvents{numSeen: 0, events: &h, failedHarvests: 0}"
]

/-- skeleton of `analyticsEvents.AddEvent` (daemon/internal/newrelic/analytics_events.go): conditions, assignments, calls (logging left out), channel operations, returns -/
def eventsAddEvent : List String := [
  "if len(*events.events)<cap(*events.events) {",
  "events.events.Push(e)",
  "if len(*events.events)==cap(*events.events) {",
  "heap.Init(events.events)",
  "}",
  "return",
  "}",
  "if 0==cap(*events.events) {",
  "return",
  "}",
  "if e.priority.IsLowerPriority((*events.events)[0].priority) {",
  "return",
  "}",
  "heap.Pop(events.events)",
  "heap.Push(events.events, e)"
]

end Reviewed
