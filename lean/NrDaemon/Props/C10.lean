import NrDaemon.Lemmas.Proc
/-!
  C10 — malformed agent messages are contained.

  The flatbuffers decoder is not modelled: `FlatTxn.AggregateInto` on arbitrary bytes is an ARBITRARY function of the
  addressed run's harvest (it may apply any prefix of the message's actions and then panic — the panic is recovered
  in `processTxnData` — or apply garbage).  Containment is proved for every such function.
-/
open Gen.Limits

/-- `processTxnData` with an arbitrary effect `f` of the (possibly corrupt) message on the addressed harvest -/
def processTxnWith (s : PState) (runId : String) (f : HarvestM → HarvestM) : PState :=
  match getRun s runId with
  | none => s
  | some run =>
    let s := setRun s runId { run with h := f { run.h with commands := run.h.commands + 1 } }
    match getApp s run.app with
    | none => s
    | some app => setApp s run.app { app with lastActivity := s.now }

/-- the well-formed case is an instance -/
theorem C10_wellformed_instance (s : PState) (r : String) (t : TxnM) :
    processTxn s r t = processTxnWith s r (fun h => aggregateTxn h t) := rfl

/-- **C10 (no run id, no effect).**  A message — whatever its bytes — addressed to a run id the daemon does not hold
changes nothing. -/
theorem C10_unknown_run_no_effect (s : PState) (r : String) (f : HarvestM → HarvestM) (h : getRun s r = none) :
    processTxnWith s r f = s := by simp [processTxnWith, h]

/-- **C10 (other runs are untouched).**  Whatever a message does to the harvest of the run it is addressed to, the
harvest of every other run is exactly what it was. -/
theorem C10_other_runs_untouched (s : PState) (r r' : String) (f : HarvestM → HarvestM) (hne : r' ≠ r) :
    getRun (processTxnWith s r f) r' = getRun s r' := by
  unfold processTxnWith
  split
  · rfl
  · next run hrun =>
    dsimp only
    split
    · exact getRun_setRun_ne s r r' _ hne
    · rw [getRun_setApp]; exact getRun_setRun_ne s r r' _ hne

/-- **C10 (requests in flight, groups and the clock are untouched; the processor keeps running).** -/
theorem C10_rest_untouched (s : PState) (r : String) (f : HarvestM → HarvestM) :
    (processTxnWith s r f).inflight = s.inflight ∧ (processTxnWith s r f).groups = s.groups ∧
    (processTxnWith s r f).now = s.now ∧ (processTxnWith s r f).stopped = s.stopped ∧
    (processTxnWith s r f).duQueue = s.duQueue := by
  unfold processTxnWith
  split
  · exact ⟨rfl, rfl, rfl, rfl, rfl⟩
  · dsimp only
    split
    · exact ⟨rfl, rfl, rfl, rfl, rfl⟩
    · exact ⟨rfl, rfl, rfl, rfl, rfl⟩

/-- **C10 (application states are untouched).**  No message can change the lifecycle state, collector, connect reply
or identity of any application (only the activity time stamp of the addressed run's application moves). -/
theorem C10_app_states_untouched (s : PState) (r : String) (f : HarvestM → HarvestM) (h : String) :
    ((getApp (processTxnWith s r f) h).map (fun a => (a.state, a.collector, a.reply, a.runId, a.cfg))) =
    ((getApp s h).map (fun a => (a.state, a.collector, a.reply, a.runId, a.cfg))) := by
  unfold processTxnWith
  split
  · rfl
  · next run hrun =>
    dsimp only
    split
    · rfl
    · next app happ =>
      rw [getApp_setRun] at happ
      by_cases hh : h = run.app
      · subst hh
        rw [getApp_setApp_same, happ]
        rfl
      · -- a different application: setApp on another handle
        rw [getApp_setApp_ne _ _ _ _ hh, getApp_setRun]

/-- the listener: a panic while decoding on a connection goroutine ends that connection only.  Connections are
independent lists of messages; `decodeOk m = false` stands for "the handler panicked on m". -/
def serveConn (decodeOk : Nat → Bool) : List Nat → List Nat
  | [] => []
  | m :: ms => if decodeOk m then m :: serveConn decodeOk ms else []

def serveAll (decodeOk : Nat → Bool) (conns : List (List Nat)) : List (List Nat) := conns.map (serveConn decodeOk)

/-- **C10 (listener containment).**  What is delivered from one connection does not depend on the traffic — corrupt
or not — of any other connection, and everything before the offending message on the same connection is delivered. -/
theorem C10_listener_contained (decodeOk : Nat → Bool) (before after : List (List Nat)) (c c' : List Nat) :
    (serveAll decodeOk (before ++ c :: after)).take before.length = (serveAll decodeOk (before ++ c' :: after)).take before.length ∧
    (serveAll decodeOk (before ++ c :: after)).drop (before.length + 1) = (serveAll decodeOk (before ++ c' :: after)).drop (before.length + 1) := by
  simp [serveAll, List.take_append, List.drop_append]

theorem C10_prefix_delivered (decodeOk : Nat → Bool) (good : List Nat) (bad : Nat) (rest : List Nat)
    (hg : ∀ m ∈ good, decodeOk m = true) (hb : decodeOk bad = false) :
    serveConn decodeOk (good ++ bad :: rest) = good := by
  induction good with
  | nil => simp [serveConn, hb]
  | cons g gs ih =>
    have hgm := hg g (by simp)
    simp only [List.cons_append, serveConn, hgm, if_true]
    rw [ih (fun m hm => hg m (by simp [hm]))]
