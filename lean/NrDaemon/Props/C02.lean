import NrDaemon.Model.Proc
import NrDaemon.Gen.SwapTable
import NrDaemon.Props.C07
/-!
  C02 — failed deliveries are retried only as specified, with bounded attempts.
  `Gen.Status.shouldSaveHarvestData` and `Gen.SwapTable.failedHarvest` are regenerated from the Go source.
-/
open Gen.Limits

/-- **C02 (retryable statuses; over the regenerated classification).**  A failed request's data is saved for the next
harvest iff the status is 408, 429, 500 or 503. -/
theorem C02_retry_statuses (c : Int) :
    Gen.Status.shouldSaveHarvestData c = true ↔ (c = 408 ∨ c = 429 ∨ c = 500 ∨ c = 503) := by
  unfold Gen.Status.shouldSaveHarvestData
  by_cases h1 : c = 408 <;> by_cases h2 : c = 429 <;> by_cases h3 : c = 500 <;> by_cases h4 : c = 503 <;> simp [h1, h2, h3, h4]

/-- **C02 (retryable categories; over the regenerated table of `FailedHarvest` methods).**  Metrics and the five event
categories are merged back into the harvest of the same category; errors, slow SQLs, traces and package lists are
never retried. -/
theorem C02_retry_categories :
    Gen.SwapTable.failedHarvest =
      [("MetricTable", "Metrics"), ("ErrorHeap", ""), ("SlowSQLs", ""), ("TxnTraces", ""), ("TxnEvents", "TxnEvents"),
       ("CustomEvents", "CustomEvents"), ("ErrorEvents", "ErrorEvents"), ("SpanEvents", "SpanEvents"),
       ("LogEvents", "LogEvents"), ("PhpPackages", "")] := by decide

/-- the model's `failedHarvest` keeps nothing for the non-retryable categories -/
theorem C02_never_retried (h : HarvestM) (p : Payload) :
    failedHarvest h p .errors = h ∧ failedHarvest h p .slowSql = h ∧ failedHarvest h p .traces = h ∧
    failedHarvest h p .packages = h := by
  refine ⟨?_, ?_, ?_, ?_⟩ <;> (unfold failedHarvest; cases p <;> rfl)

/-- the attempt limits are the documented ones (regenerated from limits.go) -/
theorem C02_limits : FailedMetricAttemptsLimit = 5 ∧ FailedEventsAttemptsLimit = 10 := by decide

/-- one carry-over of an event payload: given up when it has already failed `limit` times, otherwise merged with the
counter advanced by one -/
theorem C02_events_step (limit : Nat) (cur failed : Res) :
    (failed.failed + 1 > limit → cur.mergeFailed limit failed = cur) ∧
    (failed.failed + 1 ≤ limit → (cur.mergeFailed limit failed).failed = failed.failed + 1) := by
  unfold Res.mergeFailed
  constructor
  · intro h; simp [h]
  · intro h
    have : ¬ failed.failed + 1 > limit := by omega
    simp [this, Res.merge]

/-- the payload that keeps failing: attempt `k+1` sends what attempt `k` carried into a fresh reservoir -/
def eventChain (limit cap : Nat) (first : Res) : Nat → Res
  | 0 => first
  | k + 1 => (Res.new cap).mergeFailed limit (eventChain limit cap first k)

/-- **C02 (bounded attempts, events).**  A payload that fails every time carries the counter `k` after `k` failures
while `k ≤ limit`, and after `limit + 1` failures nothing of it is held any more: it is sent at most `1 + limit`
(= 11) times. -/
theorem C02_events_attempts_bounded (limit cap : Nat) (first : Res) (h0 : first.failed = 0) :
    (∀ k, k ≤ limit → (eventChain limit cap first k).failed = k) ∧
    (eventChain limit cap first (limit + 1)).evs = #[] := by
  have hk : ∀ k, k ≤ limit → (eventChain limit cap first k).failed = k := by
    intro k
    induction k with
    | zero => intro _; exact h0
    | succ k ih =>
      intro hle
      have := ih (by omega)
      simp only [eventChain]
      rw [(C02_events_step limit (Res.new cap) _).2 (by omega), this]
  refine ⟨hk, ?_⟩
  simp only [eventChain]
  rw [(C02_events_step limit (Res.new cap) _).1 (by rw [hk limit (Nat.le_refl _)]; omega)]
  rfl

/-- one carry-over of a metric payload -/
theorem C02_metrics_step (limit : Nat) (cur failed : MTable) :
    (failed.failed + 1 > limit → cur.mergeFailed limit failed = cur) ∧
    (failed.failed + 1 ≤ limit → (cur.mergeFailed limit failed).failed = failed.failed + 1) := by
  unfold MTable.mergeFailed
  constructor
  · intro h; simp [h]
  · intro h
    have hn : ¬ failed.failed + 1 > limit := by omega
    simp only [hn, if_false]
    have : ∀ (src : List (MKey × Metric)) (t : MTable), (t.mergeOrd src).failed = t.failed := by
      intro src
      induction src with
      | nil => intro t; rfl
      | cons p src ih =>
        intro t
        simp only [MTable.mergeOrd, List.foldl_cons] at *
        rw [ih]
        unfold MTable.mergeMetric
        split
        · split <;> rfl
        · rfl
    simp [MTable.merge, this]

/-- the metric payload that keeps failing, with the collector's rename rules applied before every send -/
def metricChain (limit : Nat) (rename : String → String) (first : MTable) : Nat → MTable
  | 0 => first.applyRules rename
  | k + 1 => (((MTable.new first.max).mergeFailed limit (metricChain limit rename first k))).applyRules rename

/-- **C02 (bounded attempts, metrics, with rename rules).**  The attempt counter survives renaming, so a metric
payload that fails every time is sent at most `1 + limit` (= 6) times and is then given up. -/
theorem C02_metrics_attempts_bounded (limit : Nat) (rename : String → String) (first : MTable) (h0 : first.failed = 0) :
    (∀ k, k ≤ limit → (metricChain limit rename first k).failed = k) ∧
    (metricChain limit rename first (limit + 1)).ms = [] := by
  have keep : ∀ t : MTable, (t.applyRules rename).failed = t.failed := fun t =>
    (C07_rename_keeps_attempts t rename t.ms).1
  have hk : ∀ k, k ≤ limit → (metricChain limit rename first k).failed = k := by
    intro k
    induction k with
    | zero => intro _; simp only [metricChain]; rw [keep]; exact h0
    | succ k ih =>
      intro hle
      have := ih (by omega)
      simp only [metricChain]
      rw [keep, (C02_metrics_step limit _ _).2 (by omega), this]
  refine ⟨hk, ?_⟩
  simp only [metricChain]
  rw [(C02_metrics_step limit _ _).1 (by rw [hk limit (Nat.le_refl _)]; omega)]
  simp [MTable.applyRules, MTable.applyRulesOrd, MTable.new]
