import NrDaemon.Props.Reviewed
import NrDaemon.Gen.Skeleton
import NrDaemon.Model.Proc
import NrDaemon.Gen.SwapTable
import NrDaemon.Props.C07
import NrDaemon.Lemmas.Ledger
import NrDaemon.Lemmas.Containers
/-!
  C02 — failed deliveries are retried only as specified, with bounded attempts.
  `Gen.Status.shouldSaveHarvestData` and `Gen.SwapTable.failedHarvest` are regenerated from the Go source.
-/
open Gen.Limits

/-- **C02 (retryable statuses; over the regenerated classification).**  A failed request's data is saved for the next
harvest iff the status is 408, 429, 500 or 503. -/
theorem C02_retry_statuses (c : Int) :
    Gen.Status.shouldSaveHarvestData c = true ↔ (c = 408 ∨ c = 429 ∨ c = 500 ∨ c = 503) := by
  unfold Gen.Status.shouldSaveHarvestData
  by_cases h1 : c = 408 <;> by_cases h2 : c = 429 <;> by_cases h3 : c = 500 <;> by_cases h4 : c = 503 <;> simp [h1, h2, h3, h4]

/-- **C02 (retryable categories; over the regenerated table of `FailedHarvest` methods).**  Metrics and the five event
categories are merged back into the harvest of the same category; errors, slow SQLs, traces and package lists are
never retried. -/
theorem C02_retry_categories :
    Gen.SwapTable.failedHarvest =
      [("MetricTable", "Metrics"), ("ErrorHeap", ""), ("SlowSQLs", ""), ("TxnTraces", ""), ("TxnEvents", "TxnEvents"),
       ("CustomEvents", "CustomEvents"), ("ErrorEvents", "ErrorEvents"), ("SpanEvents", "SpanEvents"),
       ("LogEvents", "LogEvents"), ("PhpPackages", "")] := by decide

/-- the model's `failedHarvest` keeps nothing for the non-retryable categories -/
theorem C02_never_retried (h : HarvestM) (p : Payload) :
    failedHarvest h p .errors = h ∧ failedHarvest h p .slowSql = h ∧ failedHarvest h p .traces = h ∧
    failedHarvest h p .packages = h := by
  refine ⟨?_, ?_, ?_, ?_⟩ <;> (unfold failedHarvest; cases p <;> rfl)

/-- the attempt limits are the documented ones (regenerated from limits.go) -/
theorem C02_limits : FailedMetricAttemptsLimit = 5 ∧ FailedEventsAttemptsLimit = 10 := by decide

/-- one carry-over of an event payload: given up when it has already failed `limit` times, otherwise merged with the
counter advanced by one -/
theorem C02_events_step (limit : Nat) (cur failed : Res) :
    (failed.failed + 1 > limit → cur.mergeFailed limit failed = cur) ∧
    (failed.failed + 1 ≤ limit → (cur.mergeFailed limit failed).failed = failed.failed + 1) := by
  unfold Res.mergeFailed
  constructor
  · intro h; simp [h]
  · intro h
    have : ¬ failed.failed + 1 > limit := by omega
    simp [this, Res.merge]

/-- the payload that keeps failing: attempt `k+1` sends what attempt `k` carried into a fresh reservoir -/
def eventChain (limit cap : Nat) (first : Res) : Nat → Res
  | 0 => first
  | k + 1 => (Res.new cap).mergeFailed limit (eventChain limit cap first k)

/-- **C02 (bounded attempts, events).**  A payload that fails every time carries the counter `k` after `k` failures
while `k ≤ limit`, and after `limit + 1` failures nothing of it is held any more: it is sent at most `1 + limit`
(= 11) times. -/
theorem C02_events_attempts_bounded (limit cap : Nat) (first : Res) (h0 : first.failed = 0) :
    (∀ k, k ≤ limit → (eventChain limit cap first k).failed = k) ∧
    (eventChain limit cap first (limit + 1)).evs = #[] := by
  have hk : ∀ k, k ≤ limit → (eventChain limit cap first k).failed = k := by
    intro k
    induction k with
    | zero => intro _; exact h0
    | succ k ih =>
      intro hle
      have := ih (by omega)
      simp only [eventChain]
      rw [(C02_events_step limit (Res.new cap) _).2 (by omega), this]
  refine ⟨hk, ?_⟩
  simp only [eventChain]
  rw [(C02_events_step limit (Res.new cap) _).1 (by rw [hk limit (Nat.le_refl _)]; omega)]
  rfl

/-- one carry-over of a metric payload -/
theorem C02_metrics_step (limit : Nat) (cur failed : MTable) :
    (failed.failed + 1 > limit → cur.mergeFailed limit failed = cur) ∧
    (failed.failed + 1 ≤ limit → (cur.mergeFailed limit failed).failed = failed.failed + 1) := by
  unfold MTable.mergeFailed
  constructor
  · intro h; simp [h]
  · intro h
    have hn : ¬ failed.failed + 1 > limit := by omega
    simp only [hn, if_false]
    have : ∀ (src : List (MKey × Metric)) (t : MTable), (t.mergeOrd src).failed = t.failed := by
      intro src
      induction src with
      | nil => intro t; rfl
      | cons p src ih =>
        intro t
        simp only [MTable.mergeOrd, List.foldl_cons] at *
        rw [ih]
        unfold MTable.mergeMetric
        split
        · split <;> rfl
        · rfl
    simp [MTable.merge, this]

/-- the metric payload that keeps failing, with the collector's rename rules applied before every send -/
def metricChain (limit : Nat) (rename : String → String) (first : MTable) : Nat → MTable
  | 0 => first.applyRules rename
  | k + 1 => (((MTable.new first.max).mergeFailed limit (metricChain limit rename first k))).applyRules rename

/-- **C02 (bounded attempts, metrics, with rename rules).**  The attempt counter survives renaming, so a metric
payload that fails every time is sent at most `1 + limit` (= 6) times and is then given up. -/
theorem C02_metrics_attempts_bounded (limit : Nat) (rename : String → String) (first : MTable) (h0 : first.failed = 0) :
    (∀ k, k ≤ limit → (metricChain limit rename first k).failed = k) ∧
    (metricChain limit rename first (limit + 1)).ms = [] := by
  have keep : ∀ t : MTable, (t.applyRules rename).failed = t.failed := fun t =>
    (C07_rename_keeps_attempts t rename t.ms).1
  have hk : ∀ k, k ≤ limit → (metricChain limit rename first k).failed = k := by
    intro k
    induction k with
    | zero => intro _; simp only [metricChain]; rw [keep]; exact h0
    | succ k ih =>
      intro hle
      have := ih (by omega)
      simp only [metricChain]
      rw [keep, (C02_metrics_step limit _ _).2 (by omega), this]
  refine ⟨hk, ?_⟩
  simp only [metricChain]
  rw [(C02_metrics_step limit _ _).1 (by rw [hk limit (Nat.le_refl _)]; omega)]
  simp [MTable.applyRules, MTable.applyRulesOrd, MTable.new]

/-! ## Over all histories of one event category (`Model/Ledger.lean`) -/

def CatM.AttemptsOk (s : CatM) : Prop := s.cur.failed ≤ s.limit ∧ ∀ p ∈ s.inflight, p.failed ≤ s.limit

theorem catStep_attempts (s : CatM) (ev : CatEvent) (hcap : s.cur.cap = s.cap) (h : s.AttemptsOk) :
    (s.step ev).AttemptsOk ∧ (s.step ev).limit = s.limit ∧ (s.step ev).cur.cap = (s.step ev).cap := by
  obtain ⟨h1, h2⟩ := h
  have erase_ok : ∀ i, ∀ p ∈ s.inflight.eraseIdx i, p.failed ≤ s.limit :=
    fun i p hp => h2 p (List.mem_of_mem_eraseIdx hp)
  cases ev with
  | offer e => exact ⟨⟨h1, h2⟩, rfl, hcap⟩
  | harvest =>
    simp only [CatM.step]
    split
    · exact ⟨⟨h1, h2⟩, rfl, hcap⟩
    · refine ⟨⟨by simp [Res.new], ?_⟩, rfl, rfl⟩
      intro p hp
      rcases List.mem_append.mp hp with hp | hp
      · exact h2 p hp
      · simp at hp; subst hp; exact h1
  | ack i =>
    simp only [CatM.step]
    split
    · exact ⟨⟨h1, erase_ok i⟩, rfl, hcap⟩
    · exact ⟨⟨h1, h2⟩, rfl, hcap⟩
  | retry i =>
    simp only [CatM.step]
    split
    · next p hp =>
      refine ⟨⟨?_, erase_ok i⟩, rfl, ?_⟩
      · unfold Res.mergeFailed
        dsimp only
        split
        · exact h1
        · simp only [Res.merge]; omega
      · unfold Res.mergeFailed
        dsimp only
        split
        · exact hcap
        · simpa [Res.merge] using hcap
    · exact ⟨⟨h1, h2⟩, rfl, hcap⟩
  | fatal i =>
    simp only [CatM.step]
    split
    · exact ⟨⟨h1, erase_ok i⟩, rfl, hcap⟩
    · exact ⟨⟨h1, h2⟩, rfl, hcap⟩

/-- **C02 (bounded attempts, all histories).**  In every history of offers, harvests, acknowledgements, retryable and
fatal failures of one event category — any interleaving, any number of requests in flight — the failed-delivery counter of
the current reservoir and of every payload in flight never exceeds the attempt limit: data is sent at most `limit + 1`
times before it is given up. -/
theorem C02_attempts_bounded_all_histories (cap limit : Nat) (evs : List CatEvent) :
    let s := (CatM.init cap limit).run evs
    s.cur.failed ≤ limit ∧ ∀ p ∈ s.inflight, p.failed ≤ limit := by
  have key : ∀ (evs : List CatEvent) (s : CatM), s.cur.cap = s.cap → s.AttemptsOk →
      (s.run evs).AttemptsOk ∧ (s.run evs).limit = s.limit := by
    intro evs
    induction evs with
    | nil => intro s _ h; exact ⟨h, rfl⟩
    | cons e es ih =>
      intro s hc h
      obtain ⟨h1, h2, h3⟩ := catStep_attempts s e hc h
      obtain ⟨i1, i2⟩ := ih (s.step e) h3 h1
      exact ⟨i1, i2.trans h2⟩
  obtain ⟨⟨a, b⟩, hl⟩ := key evs (CatM.init cap limit) rfl ⟨by simp [CatM.init, Res.new], by simp [CatM.init]⟩
  have hl' : ((CatM.init cap limit).run evs).limit = limit := hl
  dsimp only
  rw [hl'] at a b
  exact ⟨a, b⟩

/-! ## Metrics over all histories (`Model/GLedger.lean` with the metric-table container) -/

theorem mergeG_failed (t : MTG) (k : MKey) (m : Metric) (g : List Contrib) : (t.mergeG k m g).failed = t.failed := by
  unfold MTG.mergeG
  split
  · split <;> rfl
  · rfl

theorem foldG_failed (es : List (MKey × Metric × List Contrib)) (t : MTG) :
    (es.foldl (fun acc e => acc.mergeG e.1 e.2.1 e.2.2) t).failed = t.failed := by
  induction es generalizing t with
  | nil => rfl
  | cons e es ih => simp only [List.foldl_cons]; rw [ih, mergeG_failed]

/-- **C02 (metrics: bounded attempts, all histories).**  In every history of contributions, harvests, acknowledgements,
retryable and fatal failures of the metric category — any interleaving, any number of requests in flight, any table
capacity — the failed-delivery counter of the current table and of every payload in flight never exceeds the attempt
limit, so a metric payload is sent at most `limit + 1` times before it is given up. -/
theorem C02_metric_attempts_bounded_all_histories (max limit : Nat) (evs : List (GEvent Contrib)) :
    let s := (GM.init (mtCont max limit)).run (mtCont max limit) evs
    s.cur.failed ≤ limit ∧ ∀ p ∈ s.inflight, p.failed ≤ limit := by
  have step : ∀ (s : GM MTG Contrib) (ev : GEvent Contrib),
      (s.cur.failed ≤ limit ∧ ∀ p ∈ s.inflight, p.failed ≤ limit) →
      ((s.step (mtCont max limit) ev).cur.failed ≤ limit ∧ ∀ p ∈ (s.step (mtCont max limit) ev).inflight, p.failed ≤ limit) := by
    intro s ev ⟨hc, hi⟩
    cases ev with
    | offer x =>
      refine ⟨?_, hi⟩
      simp only [GM.step, mtCont, MTG.offer]
      rw [mergeG_failed]; exact hc
    | harvest =>
      simp only [GM.step]
      split
      · exact ⟨hc, hi⟩
      · refine ⟨by simp [mtCont, MTG.new], ?_⟩
        intro p hp
        rcases List.mem_append.mp hp with hp | hp
        · exact hi p hp
        · simp at hp; subst hp; exact hc
    | ack i =>
      simp only [GM.step]
      split
      · exact ⟨hc, fun q hq => hi q (List.mem_of_mem_eraseIdx hq)⟩
      · exact ⟨hc, hi⟩
    | retry i =>
      simp only [GM.step]
      split
      · rename_i p hp
        refine ⟨?_, fun q hq => hi q (List.mem_of_mem_eraseIdx hq)⟩
        simp only [mtCont, MTG.mergeFailed]
        split
        · exact hc
        · rename_i hle
          rw [foldG_failed]
          simp only
          omega
      · exact ⟨hc, hi⟩
    | fatal i =>
      simp only [GM.step]
      split
      · exact ⟨hc, fun q hq => hi q (List.mem_of_mem_eraseIdx hq)⟩
      · exact ⟨hc, hi⟩
  have key : ∀ (evs : List (GEvent Contrib)) (s : GM MTG Contrib),
      (s.cur.failed ≤ limit ∧ ∀ p ∈ s.inflight, p.failed ≤ limit) →
      ((s.run (mtCont max limit) evs).cur.failed ≤ limit ∧ ∀ p ∈ (s.run (mtCont max limit) evs).inflight, p.failed ≤ limit) := by
    intro evs
    induction evs with
    | nil => intro s h; exact h
    | cons e es ih => intro s h; exact ih _ (step s e h)
  exact key evs _ ⟨by simp [GM.init, mtCont, MTG.new], by simp [GM.init]⟩


/-! ## Ties to the current source: the functions transcribed by the model have not changed since they were reviewed (`Props/Reviewed.lean`) -/

/-- **C02 (tie).**  `metricsMergeFailed`: attempt counter and limit of a carried-over metric table. -/
theorem C02_metrics_merge_failed_source_tied : Gen.Skeleton.metricsMergeFailed = Reviewed.metricsMergeFailed := rfl

/-- **C02 (tie).**  `eventsMergeFailed`: attempt counter and limit of a carried-over reservoir. -/
theorem C02_events_merge_failed_source_tied : Gen.Skeleton.eventsMergeFailed = Reviewed.eventsMergeFailed := rfl
