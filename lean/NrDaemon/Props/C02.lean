import NrDaemon.Model.Proc
/-! C02 — theorems (see DESIGN.md §6). -/
