import NrDaemon.Props.Reviewed
import NrDaemon.Gen.Skeleton
import NrDaemon.Model.Lasp
/-!
  C13 — security-policy handshake is fail-closed and most-secure-wins.
-/

/-- **C13 (verification, both directions).**  Verification succeeds iff both maps are non-empty, every policy the
collector marks required is reported by the agent as supported, and every policy the agent reports is known to the
collector. -/
theorem C13_verify_iff (ap : AgentMap) (pre : CollMap) :
    verifyPolicies ap pre = true ↔
      (ap ≠ [] ∧ pre ≠ [] ∧
       (∀ p ∈ pre, p.2.required = true → ∃ a, lookupA ap p.1 = some a ∧ a.supported = true) ∧
       (∀ a ∈ ap, (lookupC pre a.1).isSome = true)) := by
  unfold verifyPolicies
  simp only [Bool.and_eq_true, Bool.not_eq_true', List.isEmpty_eq_false_iff, List.all_eq_true, Bool.or_eq_true]
  constructor
  · rintro ⟨⟨⟨h1, h2⟩, h3⟩, h4⟩
    refine ⟨h1, h2, ?_, h4⟩
    intro p hp hreq
    rcases h3 p hp with h | h
    · simp [hreq] at h
    · cases hl : lookupA ap p.1 with
      | none => simp [hl] at h
      | some a => exact ⟨a, rfl, by simpa [hl] using h⟩
  · rintro ⟨h1, h2, h3, h4⟩
    refine ⟨⟨⟨h1, h2⟩, ?_⟩, h4⟩
    intro p hp
    cases hreq : p.2.required with
    | false => left; rfl
    | true =>
      right
      obtain ⟨a, ha, hs⟩ := h3 p hp hreq
      simp [ha, hs]

/-- **C13 (fail closed).**  With a token, if verification fails no connect request is sent and the application is
not connected. -/
theorem C13_no_connect_on_failure (ap : AgentMap) (pre : CollMap) (h : verifyPolicies ap pre = false) :
    (connectApp true ap pre).cmds = ["preconnect"] ∧ (connectApp true ap pre).ok = false := by
  simp [connectApp, h]

/-- with a token, a connect request is sent only if verification succeeded -/
theorem C13_connect_only_if_verified (ap : AgentMap) (pre : CollMap)
    (h : "connect" ∈ (connectApp true ap pre).cmds) : verifyPolicies ap pre = true := by
  cases hv : verifyPolicies ap pre with
  | true => rfl
  | false => simp [connectApp, hv] at h

/-- **C13 (most secure wins).**  In the connect request a policy appears iff the agent supports it, and it is
enabled iff both the agent and the collector enable it. -/
theorem C13_enabled_is_conj (ap : AgentMap) (pre : CollMap) (l : List (String × Bool))
    (h : policiesPayload ap pre = some l) (n : String) (e : Bool) :
    (n, e) ∈ l ↔ ∃ a, (n, a) ∈ ap ∧ a.supported = true ∧
      e = (a.enabled && ((lookupC pre n).map (·.enabled)).getD false) := by
  unfold policiesPayload at h
  split at h
  · cases h
  · cases h
    simp only [List.mem_map, List.mem_filter]
    constructor
    · rintro ⟨x, ⟨hx, hs⟩, heq⟩
      cases heq
      exact ⟨x.2, hx, hs, rfl⟩
    · rintro ⟨a, ha, hs, he⟩
      exact ⟨(n, a), ⟨ha, hs⟩, by simp [he]⟩

/-- **C13 (policies returned to agents are exactly the collector's).** -/
theorem C13_returned_is_collectors (token : Bool) (ap : AgentMap) (pre : CollMap)
    (h : (connectApp token ap pre).ok = true) :
    (connectApp token ap pre).returned = pre.map (fun p => (p.1, p.2.enabled)) := by
  unfold connectApp at *
  cases token <;> cases hv : verifyPolicies ap pre <;> simp [hv] at h ⊢
  · rfl
  · rfl
  · cases hp : policiesPayload ap pre <;> simp [hp] at h ⊢
    rfl

/-- **C13 (no token, no check).**  Without a token the policy maps are not consulted and the connect goes ahead. -/
theorem C13_no_token_no_check (ap : AgentMap) (pre : CollMap) :
    (connectApp false ap pre).cmds = ["preconnect", "connect"] ∧ (connectApp false ap pre).payload = none := by
  simp [connectApp]

/-! non-vacuity: a verifying pair and a failing pair -/
example : verifyPolicies [("record_sql", ⟨true, true⟩)] [("record_sql", ⟨false, true⟩)] = true := by decide
example : verifyPolicies [("record_sql", ⟨true, false⟩)] [("record_sql", ⟨false, true⟩)] = false := by decide


/-! ## Ties to the current source: the functions transcribed by the model have not changed since they were reviewed (`Props/Reviewed.lean`) -/

/-- **C13 (tie).**  `considerConnect`: the agent's policies reach the handshake untrimmed. -/
theorem C13_consider_connect_source_tied : Gen.Skeleton.considerConnect = Reviewed.considerConnect := rfl

/-- **C13 (tie).**  `connectApplication`: preconnect, verification, returned policies, payload policies, connect - in this order. -/
theorem C13_connect_application_source_tied : Gen.Skeleton.connectApplication = Reviewed.connectApplication := rfl

/-- **C13 (tie).**  `verifySecurityPolicies`: both directions of the verification. -/
theorem C13_verify_source_tied : Gen.Skeleton.verifySecurityPolicies = Reviewed.verifySecurityPolicies := rfl

/-- **C13 (tie).**  `addPoliciesToPayload`: supported policies only, enabled = conjunction. -/
theorem C13_add_policies_source_tied : Gen.Skeleton.addPoliciesToPayload = Reviewed.addPoliciesToPayload := rfl
