import NrDaemon.Props.Reviewed
import NrDaemon.Gen.Skeleton
import NrDaemon.Model.Trigger
import NrDaemon.Gen.SwapTable
import NrDaemon.Props.Tied
import NrDaemon.Lemmas.HarvestReqs
import NrDaemon.Props.C05
/-!
  C12 — harvest cadence follows the negotiated periods and stops cleanly.
-/
open Gen.Limits

set_option linter.unusedSimpArgs false
set_option linter.unusedVariables false

/-! ## Handshake invariant -/

structure TG.Inv (s : TG) : Prop where
  noPanic : s.panicked = false
  closedDone : s.trigClosed = true → s.closer = .done
  lateEmpty : (s.closer = .closeTrigger ∨ s.closer = .done) → s.rest = [] ∧ s.phase = .fin
  fwdDone : s.fwd = .done → s.trigClosed = true
  closedFwd : s.trigClosed = true → s.fwd ≠ .idle
  phWait : s.phase = .wait → (s.closer = .notStarted ∨ s.closer = .sendCancel) ∧ ∀ m ∈ s.rest, m ≠ .cancelled
  phSending : s.phase = .sending → s.closer = .awaitConfirm ∧ s.rest ≠ [] ∧ ∀ m ∈ s.rest, m ≠ .cancelled
  phAwaiting : s.phase = .awaiting → s.closer = .awaitConfirm ∧ ∃ tl, s.rest = .cancelled :: tl ∧ ∀ m ∈ tl, m ≠ .cancelled
  phConfirm : s.phase = .confirm → s.closer = .awaitConfirm ∧ s.rest = []
  phFin : s.phase = .fin → (s.closer = .closeTrigger ∨ s.closer = .done)
  doneClosed : s.closer = .done → s.trigClosed = true

theorem tg_init_inv (n : Nat) (d : Bool) : (TG.init n d).Inv := by
  constructor <;> simp [TG.init]

theorem mem_set_ne {l : List MState} {i : Nat} {v : MState} (hv : v ≠ .cancelled)
    (h : ∀ m ∈ l, m ≠ .cancelled) : ∀ m ∈ l.set i v, m ≠ .cancelled := by
  intro m hm
  rcases List.mem_or_eq_of_mem_set hm with h1 | h1
  · exact h m h1
  · rw [h1]; exact hv

theorem tg_step_inv_tick (s : TG) (i : Nat) (h : s.Inv) : (s.step (.tick i)).Inv := by
  simp only [TG.step]
  split
  · rename_i hi
    have hlt : i < s.rest.length := by
      rcases Nat.lt_or_ge i s.rest.length with h1 | h1
      · exact h1
      · rw [List.getElem?_eq_none h1] at hi; cases hi
    have hne : s.rest ≠ [] := by intro h0; rw [h0] at hlt; simp at hlt
    constructor
    · exact h.noPanic
    · exact h.closedDone
    · intro hc; exact absurd (h.lateEmpty hc).1 hne
    · exact h.fwdDone
    · exact h.closedFwd
    · intro hp; exact ⟨(h.phWait hp).1, mem_set_ne (by decide) (h.phWait hp).2⟩
    · intro hp
      refine ⟨(h.phSending hp).1, ?_, mem_set_ne (by decide) (h.phSending hp).2.2⟩
      intro h0
      have hl : (s.rest.set i MState.holding).length = s.rest.length := List.length_set
      have h0' : s.rest.set i MState.holding = [] := h0
      rw [h0'] at hl
      simp at hl
      omega
    · intro hp
      obtain ⟨hc, tl, htl, hall⟩ := h.phAwaiting hp
      refine ⟨hc, ?_⟩
      rw [htl] at hi ⊢
      cases i with
      | zero => simp at hi
      | succ j => exact ⟨tl.set j .holding, by simp, mem_set_ne (by decide) hall⟩
    · intro hp; exact absurd (h.phConfirm hp).2 hne
    · exact h.phFin
    · exact h.doneClosed
  · exact h

theorem getElem?_lt {l : List MState} {i : Nat} {v : MState} (hi : l[i]? = some v) : i < l.length := by
  rcases Nat.lt_or_ge i l.length with h1 | h1
  · exact h1
  · rw [List.getElem?_eq_none h1] at hi; cases hi

theorem set_ne_nil {l : List MState} {i : Nat} {v : MState} (hne : l ≠ []) : l.set i v ≠ [] := by
  intro h0
  have hl : (l.set i v).length = l.length := List.length_set
  rw [h0] at hl
  cases l with
  | nil => exact hne rfl
  | cons a t => simp at hl

theorem tg_step_inv_deliver (s : TG) (i : Nat) (h : s.Inv) : (s.step (.deliver i)).Inv := by
  simp only [TG.step]
  split
  · rename_i hi
    have hlt := getElem?_lt hi
    have hne : s.rest ≠ [] := by intro h0; rw [h0] at hlt; simp at hlt
    split
    · -- the trigger channel is closed: impossible, every member has returned
      rename_i hc
      exact absurd (h.lateEmpty (Or.inr (h.closedDone hc))).1 hne
    · rename_i hnc
      split
      · constructor
        · exact h.noPanic
        · exact h.closedDone
        · intro hc; exact absurd (h.lateEmpty hc).1 hne
        · intro hf; cases hf
        · intro hc; exact absurd hc hnc
        · intro hp; exact ⟨(h.phWait hp).1, mem_set_ne (by decide) (h.phWait hp).2⟩
        · intro hp; exact ⟨(h.phSending hp).1, set_ne_nil hne, mem_set_ne (by decide) (h.phSending hp).2.2⟩
        · intro hp
          obtain ⟨hc, tl, htl, hall⟩ := h.phAwaiting hp
          refine ⟨hc, ?_⟩
          rw [htl] at hi ⊢
          cases i with
          | zero => simp at hi
          | succ j => exact ⟨tl.set j .idle, by simp, mem_set_ne (by decide) hall⟩
        · intro hp; exact absurd (h.phConfirm hp).2 hne
        · exact h.phFin
        · exact h.doneClosed
      · exact h
  · exact h

theorem tg_step_inv_procRecv (s : TG) (h : s.Inv) : (s.step .procRecv).Inv := by
  simp only [TG.step]
  split
  · rename_i hf
    constructor
    · exact h.noPanic
    · exact h.closedDone
    · exact h.lateEmpty
    · intro hd
      by_cases hc : s.trigClosed = true
      · exact hc
      · simp [hc] at hd
    · intro hc
      have hc' : s.trigClosed = true := hc
      simp [hc']
    · exact h.phWait
    · exact h.phSending
    · exact h.phAwaiting
    · exact h.phConfirm
    · exact h.phFin
    · exact h.doneClosed
  · exact h

theorem nextPhase_cases (l : List MState) : (l = [] ∧ nextPhase l = .confirm) ∨ (l ≠ [] ∧ nextPhase l = .sending) := by
  cases l <;> simp [nextPhase]

theorem tg_step_inv_startClose (s : TG) (h : s.Inv) : (s.step .startClose).Inv := by
  simp only [TG.step]
  split
  · rename_i hc
    have hw : s.phase = .wait := by
      cases hp : s.phase with
      | wait => rfl
      | sending => have := (h.phSending hp).1; rw [hc] at this; cases this
      | awaiting => have := (h.phAwaiting hp).1; rw [hc] at this; cases this
      | confirm => have := (h.phConfirm hp).1; rw [hc] at this; cases this
      | fin => rcases h.phFin hp with h1 | h1 <;> (rw [hc] at h1; cases h1)
    have hnc := (h.phWait hw).2
    have hopen : s.trigClosed = false := by
      cases ht : s.trigClosed with
      | false => rfl
      | true => have := h.closedDone ht; rw [hc] at this; cases this
    obtain ⟨i1, i2, i3, i4, i5, i6, i7, i8, i9, i10, i11⟩ := h
    split
    · rcases nextPhase_cases s.rest with ⟨he, hn⟩ | ⟨he, hn⟩
      · rw [hn]
        constructor <;> simp_all
      · rw [hn]
        constructor <;> simp_all
    · constructor <;> simp_all
  · exact h

theorem tg_step_inv_bcRecv (s : TG) (h : s.Inv) : (s.step .bcRecv).Inv := by
  simp only [TG.step]
  split
  · rename_i hc
    have hnc := (h.phWait hc.2).2
    have hopen : s.trigClosed = false := by
      cases ht : s.trigClosed with
      | false => rfl
      | true => have := h.closedDone ht; rw [hc.1] at this; cases this
    obtain ⟨i1, i2, i3, i4, i5, i6, i7, i8, i9, i10, i11⟩ := h
    rcases nextPhase_cases s.rest with ⟨he, hn⟩ | ⟨he, hn⟩
    · rw [hn]; constructor <;> simp_all
    · rw [hn]; constructor <;> simp_all
  · exact h

theorem tg_step_inv_bcSend (s : TG) (h : s.Inv) : (s.step .bcSend).Inv := by
  simp only [TG.step]
  split
  · rename_i hp
    split
    · rename_i tl hr
      obtain ⟨hc, hne, hall⟩ := h.phSending hp
      have hopen : s.trigClosed = false := by
        cases ht : s.trigClosed with
        | false => rfl
        | true => have := h.closedDone ht; rw [hc] at this; cases this
      have htl : ∀ m ∈ tl, m ≠ .cancelled := fun m hm => hall m (by rw [hr]; exact List.mem_cons_of_mem _ hm)
      obtain ⟨i1, i2, i3, i4, i5, i6, i7, i8, i9, i10, i11⟩ := h
      constructor <;> simp_all
    · exact h
  · exact h

theorem tg_step_inv_bcAwait (s : TG) (h : s.Inv) : (s.step .bcAwait).Inv := by
  simp only [TG.step]
  split
  · rename_i hp
    split
    · rename_i tl hr
      obtain ⟨hc, tl', htl', hall⟩ := h.phAwaiting hp
      have hopen : s.trigClosed = false := by
        cases ht : s.trigClosed with
        | false => rfl
        | true => have := h.closedDone ht; rw [hc] at this; cases this
      have heq : tl = tl' := by rw [hr] at htl'; exact (List.cons.inj htl').2
      subst heq
      obtain ⟨i1, i2, i3, i4, i5, i6, i7, i8, i9, i10, i11⟩ := h
      rcases nextPhase_cases tl with ⟨he, hn⟩ | ⟨he, hn⟩
      · rw [hn]; constructor <;> simp_all
      · rw [hn]; constructor <;> simp_all
    · exact h
  · exact h

theorem tg_step_inv_bcConfirm (s : TG) (h : s.Inv) : (s.step .bcConfirm).Inv := by
  simp only [TG.step]
  split
  · rename_i hp
    obtain ⟨hc, he⟩ := h.phConfirm hp.1
    have hopen : s.trigClosed = false := by
      cases ht : s.trigClosed with
      | false => rfl
      | true => have := h.closedDone ht; rw [hc] at this; cases this
    obtain ⟨i1, i2, i3, i4, i5, i6, i7, i8, i9, i10, i11⟩ := h
    constructor <;> simp_all
  · exact h

theorem tg_step_inv_closeTrigger (s : TG) (h : s.Inv) : (s.step .closeTrigger).Inv := by
  simp only [TG.step]
  split
  · rename_i hc
    obtain ⟨he, hf⟩ := h.lateEmpty (Or.inl hc)
    obtain ⟨i1, i2, i3, i4, i5, i6, i7, i8, i9, i10, i11⟩ := h
    constructor <;> simp_all
    · split <;> simp_all
  · exact h

/-- every step of every goroutine preserves the handshake invariant -/
theorem tg_step_inv (s : TG) (e : TEvent) (h : s.Inv) : (s.step e).Inv := by
  cases e with
  | tick i => exact tg_step_inv_tick s i h
  | deliver i => exact tg_step_inv_deliver s i h
  | procRecv => exact tg_step_inv_procRecv s h
  | startClose => exact tg_step_inv_startClose s h
  | bcRecv => exact tg_step_inv_bcRecv s h
  | bcSend => exact tg_step_inv_bcSend s h
  | bcAwait => exact tg_step_inv_bcAwait s h
  | bcConfirm => exact tg_step_inv_bcConfirm s h
  | closeTrigger => exact tg_step_inv_closeTrigger s h

theorem tg_run_inv (s : TG) (es : List TEvent) (h : s.Inv) : (s.run es).Inv := by
  induction es generalizing s with
  | nil => exact h
  | cons e es ih => exact ih (s.step e) (tg_step_inv s e h)

/-! ## Progress and termination -/

def mW : MState → Nat
  | .holding => 4
  | .idle => 2
  | .cancelled => 1

def fW : FState → Nat
  | .holding => 2
  | .idle => 1
  | .done => 0

def cW : CState → Nat
  | .notStarted => 4
  | .sendCancel => 3
  | .awaitConfirm => 2
  | .closeTrigger => 1
  | .done => 0

def restW (l : List MState) : Nat := (l.map mW).foldl (· + ·) 0

/-- termination measure: what is left to do before every goroutine has returned -/
def TG.mu (s : TG) : Nat := restW s.rest + fW s.fwd + cW s.closer

theorem foldl_add (l : List Nat) (x : Nat) : l.foldl (· + ·) x = x + l.foldl (· + ·) 0 := by
  induction l generalizing x with
  | nil => simp
  | cons a t ih => simp only [List.foldl_cons]; rw [ih (x + a), ih (0 + a)]; omega

theorem restW_cons (a : MState) (l : List MState) : restW (a :: l) = mW a + restW l := by
  unfold restW
  simp only [List.map_cons, List.foldl_cons]
  rw [foldl_add]; omega

theorem restW_set (l : List MState) (i : Nat) (a v : MState) (h : l[i]? = some a) :
    restW (l.set i v) + mW a = restW l + mW v := by
  induction l generalizing i with
  | nil => simp at h
  | cons x t ih =>
    cases i with
    | zero =>
      simp at h
      subst h
      simp only [List.set_cons_zero, restW_cons]; omega
    | succ j =>
      simp at h
      simp only [List.set_cons_succ, restW_cons]
      have := ih j h
      omega

def TEvent.isTick : TEvent → Bool
  | .tick _ => true
  | _ => false

/-- **C12 (termination bound).**  Every step other than a timer firing that changes the state strictly decreases the
measure; a timer firing raises it by 2.  Hence from any reachable state, once the stop request is in, any schedule with
finitely many further ticks reaches a state where nothing but ticks can happen after at most `mu + 2·ticks` steps. -/
theorem C12_measure_decreases (s : TG) (e : TEvent) (h : s.Inv) (hne : s.step e ≠ s) (ht : e.isTick = false) :
    (s.step e).mu < s.mu := by
  cases e with
  | tick i => simp [TEvent.isTick] at ht
  | deliver i =>
    simp only [TG.step] at hne ⊢
    split at hne
    · rename_i hi
      have hlt := getElem?_lt hi
      have hne' : s.rest ≠ [] := by intro h0; rw [h0] at hlt; simp at hlt
      split at hne
      · rename_i hc; exact absurd (h.lateEmpty (Or.inr (h.closedDone hc))).1 hne'
      · rename_i hnc
        split at hne
        · rename_i hf
          rw [if_pos hi, if_neg hnc, if_pos hf]
          have := restW_set s.rest i .holding .idle hi
          simp only [TG.mu, hf, fW, mW] at *
          omega
        · exact absurd rfl hne
    · exact absurd rfl hne
  | procRecv =>
    simp only [TG.step] at hne ⊢
    split at hne
    · rename_i hf
      rw [if_pos hf]
      simp only [TG.mu, hf]
      split <;> (simp only [fW]; omega)
    · exact absurd rfl hne
  | startClose =>
    simp only [TG.step] at hne ⊢
    split at hne
    · rename_i hc
      rw [if_pos hc]
      split <;> simp only [TG.mu, hc, cW] <;> omega
    · exact absurd rfl hne
  | bcRecv =>
    simp only [TG.step] at hne ⊢
    split at hne
    · rename_i hc
      rw [if_pos hc]
      simp only [TG.mu, hc.1, cW]; omega
    · exact absurd rfl hne
  | bcSend =>
    simp only [TG.step] at hne ⊢
    split at hne
    · rename_i hp
      rw [if_pos hp]
      split at hne
      · rename_i tl hr
        simp only [TG.mu, hr, restW_cons, mW]; omega
      · exact absurd rfl hne
    · exact absurd rfl hne
  | bcAwait =>
    simp only [TG.step] at hne ⊢
    split at hne
    · rename_i hp
      rw [if_pos hp]
      split at hne
      · rename_i tl hr
        simp only [TG.mu, hr, restW_cons, mW]; omega
      · exact absurd rfl hne
    · exact absurd rfl hne
  | bcConfirm =>
    simp only [TG.step] at hne ⊢
    split at hne
    · rename_i hp
      rw [if_pos hp]
      simp only [TG.mu, hp.2, cW]; omega
    · exact absurd rfl hne
  | closeTrigger =>
    simp only [TG.step] at hne ⊢
    split at hne
    · rename_i hc
      rw [if_pos hc]
      simp only [TG.mu, hc, cW]
      split
      · rename_i hf; simp only [hf, fW]; omega
      · omega
    · exact absurd rfl hne

theorem C12_tick_raises_by_two (s : TG) (i : Nat) : (s.step (.tick i)).mu ≤ s.mu + 2 := by
  simp only [TG.step]
  split
  · rename_i hi
    have := restW_set s.rest i .idle .holding hi
    simp only [TG.mu, mW] at *
    omega
  · omega

/-- the events other than timer firings (indices range over the remaining members) -/
def nonTickEvents (s : TG) : List TEvent :=
  (List.range s.rest.length).map .deliver ++ [.procRecv, .startClose, .bcRecv, .bcSend, .bcAwait, .bcConfirm, .closeTrigger]

/-- **C12 (no deadlock).**  In every reachable state in which the stop request is in and some goroutine of the run's
timers is still alive, a step other than a timer firing is enabled: the handshake never waits for something that cannot
happen, whatever ticks were in flight and however busy the processor was (the processor's only part is to keep
receiving from its harvest channel, `procRecv`). -/
theorem C12_progress (s : TG) (h : s.Inv) (hstarted : s.closer ≠ .notStarted) (hnf : s.final = false) :
    ∃ e ∈ nonTickEvents s, s.step e ≠ s := by
  have mem_tail : ∀ e ∈ [TEvent.procRecv, .startClose, .bcRecv, .bcSend, .bcAwait, .bcConfirm, .closeTrigger],
      e ∈ nonTickEvents s := fun e he => List.mem_append_right _ he
  have deliver_mem : ∀ i, i < s.rest.length → TEvent.deliver i ∈ nonTickEvents s := fun i hi =>
    List.mem_append_left _ (List.mem_map.mpr ⟨i, List.mem_range.mpr hi, rfl⟩)
  -- a holding member can hand its tick to an idle forwarder, a busy forwarder can hand its event to the processor
  have unblock : ∀ i : Nat, s.rest[i]? = some MState.holding → s.trigClosed = false → ∃ e ∈ nonTickEvents s, s.step e ≠ s := by
    intro i hi hopen
    cases hf : s.fwd with
    | idle =>
      refine ⟨.deliver i, deliver_mem i (getElem?_lt hi), ?_⟩
      simp only [TG.step, hi, hopen, hf, if_true, Bool.false_eq_true, if_false]
      intro heq
      have := congrArg TG.fwd heq
      simp [hf] at this
    | holding =>
      refine ⟨.procRecv, mem_tail _ (by simp), ?_⟩
      simp only [TG.step, hf, if_true, hopen, Bool.false_eq_true, if_false]
      intro heq
      have := congrArg TG.fwd heq
      simp [hf] at this
    | done => have := h.fwdDone hf; rw [hopen] at this; cases this
  cases hc : s.closer with
  | notStarted => exact absurd hc hstarted
  | sendCancel =>
    have hw : s.phase = .wait := by
      cases hp : s.phase with
      | wait => rfl
      | sending => have := (h.phSending hp).1; rw [hc] at this; cases this
      | awaiting => have := (h.phAwaiting hp).1; rw [hc] at this; cases this
      | confirm => have := (h.phConfirm hp).1; rw [hc] at this; cases this
      | fin => rcases h.phFin hp with h1 | h1 <;> (rw [hc] at h1; cases h1)
    refine ⟨.bcRecv, mem_tail _ (by simp), ?_⟩
    simp only [TG.step, hc, hw, and_self, if_true]
    intro heq
    have := congrArg TG.closer heq
    simp [hc] at this
  | awaitConfirm =>
    have hopen : s.trigClosed = false := by
      cases ht : s.trigClosed with
      | false => rfl
      | true => have := h.closedDone ht; rw [hc] at this; cases this
    cases hp : s.phase with
    | wait => rcases (h.phWait hp).1 with h1 | h1 <;> (rw [hc] at h1; cases h1)
    | fin => rcases h.phFin hp with h1 | h1 <;> (rw [hc] at h1; cases h1)
    | confirm =>
      refine ⟨.bcConfirm, mem_tail _ (by simp), ?_⟩
      simp only [TG.step, hc, hp, and_self, if_true]
      intro heq
      have := congrArg TG.closer heq
      simp [hc] at this
    | awaiting =>
      obtain ⟨_, tl, htl, _⟩ := h.phAwaiting hp
      refine ⟨.bcAwait, mem_tail _ (by simp), ?_⟩
      simp only [TG.step, hp, if_true, htl]
      intro heq
      have := congrArg TG.doneN heq
      simp at this
    | sending =>
      obtain ⟨_, hne, hall⟩ := h.phSending hp
      cases hr : s.rest with
      | nil => exact absurd hr hne
      | cons m tl =>
        cases m with
        | idle =>
          refine ⟨.bcSend, mem_tail _ (by simp), ?_⟩
          simp only [TG.step, hp, if_true, hr]
          intro heq
          have := congrArg TG.phase heq
          simp [hp] at this
        | holding => exact unblock 0 (by rw [hr]; rfl) hopen
        | cancelled => exact absurd rfl (hall .cancelled (by rw [hr]; exact List.mem_cons_self))
  | closeTrigger =>
    refine ⟨.closeTrigger, mem_tail _ (by simp), ?_⟩
    simp only [TG.step, hc, if_true]
    intro heq
    have := congrArg TG.closer heq
    simp [hc] at this
  | done =>
    obtain ⟨he, _⟩ := h.lateEmpty (Or.inr hc)
    cases hf : s.fwd with
    | done => simp [TG.final, hc, hf, he] at hnf
    | holding =>
      refine ⟨.procRecv, mem_tail _ (by simp), ?_⟩
      simp only [TG.step, hf, if_true]
      intro heq
      have := congrArg TG.fwd heq
      simp [hf] at this
      split at this <;> cases this
    | idle => exact absurd hf (h.closedFwd (h.doneClosed hc))   -- Close closed the channel: the forwarder is not waiting on it

/-! ## The property: stopping -/

/-- **C12 (no send on a closed channel; close only after every timer goroutine has returned).**  In every state
reachable by any interleaving of ticks of any of the n timers (n = 1 for the combined timer, 6 for the custom group, any
n here), deliveries to the forwarder, the processor receiving or being busy, and the stop request at any moment: no
trigger goroutine ever sends on the closed trigger channel (which would crash the daemon), and once `Close` has reached
`close(trigger)` every trigger goroutine has confirmed and returned. -/
theorem C12_no_send_on_closed (n : Nat) (direct : Bool) (es : List TEvent) :
    let s := (TG.init n direct).run es
    s.panicked = false ∧ (s.trigClosed = true → s.rest = [] ∧ s.closer = .done) ∧
      ((s.closer = .closeTrigger ∨ s.closer = .done) → s.rest = []) := by
  have h := tg_run_inv _ es (tg_init_inv n direct)
  exact ⟨h.noPanic, fun hc => ⟨(h.lateEmpty (Or.inr (h.closedDone hc))).1, h.closedDone hc⟩, fun hc => (h.lateEmpty hc).1⟩

/-- **C12 (deadlock-free and terminating in every interleaving).**  From every reachable state in which the stop
request is in: either every goroutine of the run's timers has returned, or a non-tick step is enabled
(`C12_progress`); and each such step decreases `mu` (`C12_measure_decreases`).  So every schedule in which only
finitely many more ticks fire reaches the final state. -/
theorem C12_stops_cleanly (n : Nat) (direct : Bool) (es : List TEvent)
    (hstarted : ((TG.init n direct).run es).closer ≠ .notStarted) :
    let s := (TG.init n direct).run es
    s.final = true ∨ ∃ e ∈ nonTickEvents s, s.step e ≠ s ∧ (s.step e).mu < s.mu := by
  have h := tg_run_inv _ es (tg_init_inv n direct)
  cases hf : ((TG.init n direct).run es).final with
  | true => exact Or.inl hf
  | false =>
    obtain ⟨e, he, hne⟩ := C12_progress _ h hstarted hf
    refine Or.inr ⟨e, he, hne, C12_measure_decreases _ e h hne ?_⟩
    simp only [nonTickEvents, List.mem_append, List.mem_map, List.mem_cons] at he
    rcases he with ⟨i, _, rfl⟩ | he
    · rfl
    · rcases he with rfl | rfl | rfl | rfl | rfl | rfl | rfl | he
      all_goals first | rfl | (simp at he)

/-- the final state is quiescent for the run: nothing but (ignored) ticks can change it -/
theorem C12_final_is_final (s : TG) (h : s.Inv) (hf : s.final = true) (e : TEvent) : s.step e = s := by
  simp only [TG.final, Bool.and_eq_true, beq_iff_eq, List.isEmpty_iff] at hf
  obtain ⟨⟨hc, hfw⟩, hr⟩ := hf
  have hp := (h.lateEmpty (Or.inr hc)).2
  cases e <;> simp [TG.step, hc, hfw, hr, hp]

/-! ## The property: cadence -/

def zeroMeansDefault (p : Nat) : Nat := if p = 0 then DefaultReportPeriod else p

/-- the period the property assigns to each data category -/
def specPeriod (n : Negotiated) : HType → Nat
  | .dflt => DefaultReportPeriod
  | .all => DefaultReportPeriod
  | c => zeroMeansDefault (catPeriod n c)

def dataCats : List HType := [.dflt, .txn, .custom, .err, .span, .log]

/-- **C12 (each category is harvested at its negotiated period).**  For every negotiated configuration — every
combination of present / absent / zero periods and limits — and each of the six data categories, the timers started by
`getHarvestTrigger` harvest it at: 60 s for default data, the category's own period for an event category, an absent or
zero period meaning 60 s. -/
theorem C12_cadence (n : Negotiated) (c : HType) (hc : c ∈ dataCats) :
    cadence (plan n) c = some (specPeriod n c) := by
  unfold plan
  split
  · rename_i hall
    -- combined harvest: every period is the default
    simp only [isHarvestAll, comparedCats, List.all_cons, List.all_nil, Bool.and_true, Bool.and_eq_true, beq_iff_eq] at hall
    obtain ⟨⟨h1, h2, h3, h4, h5⟩, hrp⟩ := hall
    simp only [catPeriod] at h1 h2 h3 h4 h5
    have hD : DefaultReportPeriod ≠ 0 := by decide
    simp only [dataCats, List.mem_cons, List.not_mem_nil, or_false] at hc
    rcases hc with rfl | rfl | rfl | rfl | rfl | rfl <;>
      simp [cadence, covers, specPeriod, zeroMeansDefault, catPeriod, h1, h2, h3, h4, h5, hrp, hD]
  · simp only [dataCats, List.mem_cons, List.not_mem_nil, or_false] at hc
    rcases hc with rfl | rfl | rfl | rfl | rfl | rfl <;>
      simp [cadence, covers, customGroup, srcPeriod, specPeriod, zeroMeansDefault, checkReportPeriod]

/-- **C12 (one combined harvest exactly when every period is the default).** -/
theorem C12_combined_iff (n : Negotiated) :
    plan n = [(.all, DefaultReportPeriod)] ↔
      (n.reportPeriod = DefaultReportPeriod ∧ ∀ c ∈ comparedCats, catPeriod n c = DefaultReportPeriod) := by
  unfold plan
  constructor
  · intro h
    split at h
    · rename_i hall
      simp only [isHarvestAll, comparedCats, List.all_cons, List.all_nil, Bool.and_true, Bool.and_eq_true, beq_iff_eq] at hall
      obtain ⟨⟨h1, h2, h3, h4, h5⟩, hrp⟩ := hall
      refine ⟨hrp, ?_⟩
      intro c hc
      simp only [comparedCats, List.mem_cons, List.not_mem_nil, or_false] at hc
      rcases hc with rfl | rfl | rfl | rfl | rfl <;> simp_all
    · simp [customGroup] at h
  · intro ⟨hrp, hall⟩
    have : isHarvestAll n = true := by
      simp only [isHarvestAll, comparedCats, List.all_cons, List.all_nil, Bool.and_true, Bool.and_eq_true, beq_iff_eq]
      simp only [comparedCats, List.mem_cons, List.not_mem_nil, or_false] at hall
      refine ⟨⟨?_, ?_, ?_, ?_, ?_⟩, hrp⟩ <;> (rw [hrp]; apply hall; simp)
    rw [if_pos this]

/-- otherwise: default data every 60 s and one timer per event category -/
theorem C12_custom_plan (n : Negotiated) (h : isHarvestAll n = false) :
    plan n = [(.dflt, DefaultReportPeriod), (.txn, zeroMeansDefault n.cfgs.txn.period),
              (.custom, zeroMeansDefault n.cfgs.custom.period), (.err, zeroMeansDefault n.cfgs.err.period),
              (.span, zeroMeansDefault n.cfgs.span.period), (.log, zeroMeansDefault n.cfgs.log.period)] := by
  unfold plan
  simp [h, customGroup, srcPeriod, checkReportPeriod, zeroMeansDefault, catPeriod]

/-- **C12 (a category whose limit is zero is never sent), per-type path.**  In `harvestByType` (regenerated table) each
event category is swapped and sent only under the guard `<its config>.Limit != 0`; on the combined path the category's
reservoir is built with that limit as capacity, stays empty (C05) and empty payloads are not sent (C01). -/
theorem C12_zero_limit_guarded :
    (Gen.SwapTable.rows.filter (fun r => r.guard != "HarvestDefaultData")).all
      (fun r => r.limitGuard != "" && r.limitGuard == r.ctorArg) = true ∧
    (Gen.SwapTable.rows.filter (fun r => r.guard != "HarvestDefaultData")).map (·.guard) =
      ["HarvestCustomEvents", "HarvestErrorEvents", "HarvestTxnEvents", "HarvestSpanEvents", "HarvestLogEvents"] := by
  decide

/-! ## The regenerated tie -/

/-- **C12 (the model's tables are the current source's).**  The typed tables the theorems above are about are exactly
what the extractor reads from harvest_trigger.go, app_harvest.go and processor.go now: the categories compared by
`isHarvestAll` and its final comparison with the default period, the six timers of `customTriggerBuilder` with the source
of each period, `checkReportPeriod` (zero means default) applied to all five, the combined timer of
`getHarvestTrigger`, the select loop of `triggerBuilder` (a tick is followed by a blocking send on the trigger channel;
the cancel message by Stop, the confirmation and return), the broadcaster (receive, then per member send-and-await in
order, then confirm), `AppHarvest.Close` (send, await, Shutdown, close(trigger), close(cancel)), the forwarder loop, and
`shutdownAppHarvest` running `Close` in its own goroutine and forgetting the harvest. -/
theorem C12_tables_tied :
    Gen.Trigger.customTriggers.map interpTrigger = customGroup.map some ∧
    Gen.Trigger.harvestAllCompared.map cfgType = comparedCats.map some ∧
    Gen.Trigger.harvestAllFinalIsDefault = true ∧
    (comparedCats.all (fun c => Gen.Trigger.checkedPeriods.any (fun s => cfgType s == some c))) = true ∧
    Gen.Trigger.checkReportPeriodIsZeroMeansDefault = true ∧ Gen.Trigger.defaultPeriodIsConst = true ∧
    Gen.Trigger.allTrigger = ("HarvestAll", "limits.DefaultReportPeriod") ∧ Gen.Trigger.elseIsCustom = true ∧
    Gen.Trigger.onTick = ["send:trigger"] ∧
    Gen.Trigger.onCancel = ["call:ticker.Stop", "send:cancel", "return"] ∧
    Gen.Trigger.broadcaster = ["recv:cancel", "each:send:c", "each:recv:c", "send:cancel"] ∧
    Gen.Trigger.closeSteps = ["send:ah.cancel", "recv:ah.cancel", "if:call:ah.TraceObserver.Shutdown", "close:ah.trigger", "close:ah.cancel", "return"] ∧
    Gen.Trigger.forwarder = "range:ah.trigger;send:ph" ∧
    Gen.Trigger.closeIsAsync = true ∧ Gen.Trigger.closeForgetsHarvest = true := by
  decide

/-! ## Sanity -/

example : ((TG.init 6 false).run [.tick 2, .deliver 2, .tick 0, .startClose, .bcRecv, .procRecv, .deliver 0, .bcSend, .bcAwait]).doneN = 1 := by decide
example : ((TG.init 1 true).run [.tick 0, .startClose, .deliver 0, .bcSend, .bcAwait, .bcConfirm, .closeTrigger, .procRecv]).final = true := by decide
example : ((TG.init 1 true).run [.tick 0, .startClose, .bcSend]).phase = .sending := by decide   -- the member is busy: Close waits

/-! ## Every timer gets a period time.NewTicker accepts -/

def maxDuration : Nat := 9223372036854775807

theorem periodOfMs_fits (ms : Option Nat) : 0 < periodOfMs ms ∧ periodOfMs ms ≤ maxDuration := by
  unfold periodOfMs maxDuration
  cases ms with
  | none => decide
  | some m =>
    simp only
    split
    · decide
    · rename_i h
      have hmax : Gen.EventData.maxReportPeriodMs = 9223372036854 := by decide
      rw [hmax] at h
      have : m ≠ 0 ∧ m ≤ 9223372036854 := by omega
      omega

theorem getEventConfig_period {raw : Option Int} {cr dl dr : Nat} {c : EvCfg}
    (h : getEventConfig raw cr dl dr = some c) : c.period = dr ∨ c.period = cr := by
  unfold getEventConfig at h
  split at h
  · injection h with h; subst h; exact Or.inl rfl
  · split at h
    · cases h
    · injection h with h; subst h; exact Or.inr rfl

/-- every negotiated category period is zero (its config object was absent) or fits a time.Duration -/
theorem negotiate_periods_fit {r : RawReply} {n : Negotiated} (h : negotiate r = some n) (c : HType) :
    catPeriod n c ≤ maxDuration := by
  have hD : DefaultReportPeriod ≤ maxDuration := by decide
  have hrp := (periodOfMs_fits r.rpMs).2
  have hsrp := (periodOfMs_fits r.srpMs).2
  unfold negotiate at h
  simp only at h
  split at h
  · rename_i nn ss hehc hsehc
    injection h with h
    subst h
    -- the span config comes from the span object, the rest from the event object
    have hspan : ss.period ≤ maxDuration := by
      split at hsehc
      · rcases getEventConfig_period hsehc with h1 | h1 <;> (rw [h1]; assumption)
      · injection hsehc with h1; subst h1; simp [maxDuration]
    have hrest : nn.cfgs.err.period ≤ maxDuration ∧ nn.cfgs.txn.period ≤ maxDuration ∧
        nn.cfgs.custom.period ≤ maxDuration ∧ nn.cfgs.log.period ≤ maxDuration := by
      split at hehc
      · split at hehc
        · rename_i e a cu s l he ha hcu hs hl
          injection hehc with h1
          subst h1
          refine ⟨?_, ?_, ?_, ?_⟩
          · rcases getEventConfig_period he with h1 | h1 <;> (rw [h1]; assumption)
          · rcases getEventConfig_period ha with h1 | h1 <;> (rw [h1]; assumption)
          · rcases getEventConfig_period hcu with h1 | h1 <;> (rw [h1]; assumption)
          · rcases getEventConfig_period hl with h1 | h1 <;> (rw [h1]; assumption)
        · cases hehc
      · injection hehc with h1; subst h1; simp [maxDuration]
    cases c <;> simp only [catPeriod] <;> first | exact hD | exact hspan | exact hrest.1 | exact hrest.2.1 | exact hrest.2.2.1 | exact hrest.2.2.2
  · cases h

/-- **C12 (no timer is started with a period `time.NewTicker` rejects).**  For every connect reply the daemon accepts —
any `report_period_ms` up to 2^64−1 in either config object, present, absent or zero — every timer of the plan has a
period that is positive and fits a `time.Duration`, so `time.NewTicker` cannot panic in the trigger goroutines. -/
theorem C12_timer_periods_fit (r : RawReply) (n : Negotiated) (h : negotiate r = some n) :
    ∀ x ∈ plan n, 0 < x.2 ∧ x.2 ≤ maxDuration := by
  have hD : 0 < DefaultReportPeriod ∧ DefaultReportPeriod ≤ maxDuration := by decide
  have hsrc : ∀ s : PSrc, 0 < srcPeriod n s ∧ srcPeriod n s ≤ maxDuration := by
    intro s
    cases s with
    | dflt => exact hD
    | cfg c =>
      simp only [srcPeriod, checkReportPeriod]
      have := negotiate_periods_fit h c
      split
      · exact hD
      · rename_i hz
        simp only [beq_iff_eq] at hz
        omega
  intro x hx
  unfold plan at hx
  split at hx
  · simp only [List.mem_singleton] at hx; subst hx; exact hD
  · simp only [List.mem_map] at hx
    obtain ⟨p, _, rfl⟩ := hx
    exact hsrc p.2

/-- the bound is the current source's: both config objects replace a period of zero or above `maxReportPeriodMS` by
the default, and `maxReportPeriodMS` milliseconds fit a `time.Duration` -/
theorem C12_period_guards_tied :
    Gen.EventData.maxReportPeriodMs ≠ 0 ∧ Gen.EventData.maxReportPeriodMs * 1000000 ≤ maxDuration ∧
    Gen.EventData.periodGuards =
      ["SpanEventHarvestConfig:rawConfig.ReportPeriodMS==0||rawConfig.ReportPeriodMS>maxReportPeriodMS",
       "EventHarvestConfig:rawConfig.ReportPeriodMS==0||rawConfig.ReportPeriodMS>maxReportPeriodMS"] := by
  decide

/-- **C12 (tie: the all-at-once decision is the code's).**  The model's `isHarvestAll` equals
`(*ConnectReply).isHarvestAll` as translated from harvest_trigger.go on this run, for every negotiated configuration;
a nil reply means all-at-once. -/
theorem C12_isHarvestAll_tied (n : Negotiated) :
    isHarvestAll n =
      Gen.Decisions.isHarvestAll (n.cfgs.txn.period : Int) (n.cfgs.custom.period : Int) (n.cfgs.err.period : Int)
        (n.cfgs.log.period : Int) (n.cfgs.span.period : Int) (n.reportPeriod : Int) true ∧
    (∀ a b c d e f : Int, Gen.Decisions.isHarvestAll a b c d e f false = true) :=
  ⟨tied_isHarvestAll n, tied_isHarvestAll_nil⟩

/-- **C12 (tie: absent / zero period means the default, as in the code).** -/
theorem C12_checkReportPeriod_tied (period dflt : Nat) :
    ((checkReportPeriod period dflt : Nat) : Int) = Gen.Negotiation.checkReportPeriod (dflt : Int) (period : Int) :=
  tied_checkReportPeriod period dflt


/-! ## "A category whose limit is zero is never sent" on the processor model (proofs in `Lemmas/HarvestReqs.lean`) -/

/-- **C12 (zero limit ⇒ never sent, per-category path).**  For every harvest content, tick mask and state: if the limit
negotiated for an event category is zero, `harvestByType` makes no request of that category. -/
theorem C12_zero_limit_never_sent_by_type (s : PState) (runId : String) (run : RunM) (app : AppM) (cfg : RunCfg) (mask : Nat) (a : HArgs) :
    (cfg.limLog = 0 → ∀ r ∈ (harvestTypesPart s runId run app cfg mask a).2, r.cat ≠ Cat.logEv) ∧
    (cfg.limSpan = 0 → ∀ r ∈ (harvestTypesPart s runId run app cfg mask a).2, r.cat ≠ Cat.spanEv) ∧
    (cfg.limCustom = 0 → ∀ r ∈ (harvestTypesPart s runId run app cfg mask a).2, r.cat ≠ Cat.customEv) ∧
    (cfg.limErr = 0 → ∀ r ∈ (harvestTypesPart s runId run app cfg mask a).2, r.cat ≠ Cat.errorEv) ∧
    (cfg.limTxn = 0 → ∀ r ∈ (harvestTypesPart s runId run app cfg mask a).2, r.cat ≠ Cat.txnEv) :=
  zeroLimit_byType s runId run app cfg mask a

/-- **C12 (zero limit ⇒ never sent, combined path and final flush).**  `harvestAll` has no limit guard; it sends a
category only if its reservoir holds something — and a reservoir built with capacity zero never does
(`C12_zero_capacity_reservoir_empty`). -/
theorem C12_zero_limit_never_sent_combined (s : PState) (runId : String) (run : RunM) (app : AppM) (cfg : RunCfg) (a : HArgs) :
    (run.h.log.evs = #[] → ∀ r ∈ (harvestAllPart s runId run app cfg a).2, r.cat ≠ Cat.logEv) ∧
    (run.h.span.evs = #[] → ∀ r ∈ (harvestAllPart s runId run app cfg a).2, r.cat ≠ Cat.spanEv) ∧
    (run.h.custom.evs = #[] → ∀ r ∈ (harvestAllPart s runId run app cfg a).2, r.cat ≠ Cat.customEv) ∧
    (run.h.errEv.evs = #[] → ∀ r ∈ (harvestAllPart s runId run app cfg a).2, r.cat ≠ Cat.errorEv) ∧
    (run.h.txn.evs = #[] → ∀ r ∈ (harvestAllPart s runId run app cfg a).2, r.cat ≠ Cat.txnEv) :=
  zeroLimit_combined s runId run app cfg a

/-- a reservoir of capacity zero holds nothing after any sequence of offers, merges and hand-backs -/
theorem C12_zero_capacity_reservoir_empty (ops : List ResOp) : (runRes 0 ops).size = 0 :=
  Nat.le_zero.mp (C05_reservoir_bound 0 ops)


/-! ## Ties to the current source: the functions transcribed by the model have not changed since they were reviewed (`Props/Reviewed.lean`) -/

/-- **C12 (tie).**  `harvestByType`: every per-category branch is guarded by its own limit being non-zero. -/
theorem C12_harvest_by_type_source_tied : Gen.Skeleton.harvestByType = Reviewed.harvestByType := rfl
