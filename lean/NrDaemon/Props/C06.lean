import NrDaemon.Props.Reviewed
import NrDaemon.Gen.Skeleton
import NrDaemon.Lemmas.Reservoir
import NrDaemon.Lemmas.SlowSQL
import NrDaemon.Spec.TopK
import NrDaemon.Gen.Limits
import NrDaemon.Props.Tied
/-!
  C06 — when over capacity, the highest-priority items are the ones kept.

  Property theorems only (helper lemmas live in `NrDaemon/Lemmas`).  The reservoir theorems quantify over every
  operation history: offers, synthetics offers and merges of carried-over reservoirs, in any order, for any
  capacity (including 0 and 1).
-/
open GoHeap

/-- the operations a harvest period applies to one event reservoir -/
inductive ResOp where
  | add (e : Ev)                 -- AddEvent / AddTxnEvent / AddEventFromData
  | addSyn (e : Ev)              -- AddSyntheticsEvent: priority boosted by 2 (= 2·10⁶ in fixed point)
  | merge (carried : Array Ev)   -- Merge / MergeFailed of a carried-over reservoir's events

def synBoost (e : Ev) : Ev := { e with prio := 2000000 + e.prio }

def ResOp.apply (cap : Nat) (a : Array Ev) : ResOp → Array Ev
  | .add e => resAddArr cap a e
  | .addSyn e => resAddArr cap a (synBoost e)
  | .merge c => c.toList.foldl (resAddArr cap) a

/-- everything offered in the period, newest first -/
def ResOp.offered : ResOp → List Ev
  | .add e => [e]
  | .addSyn e => [synBoost e]
  | .merge c => c.toList.reverse

def runRes (cap : Nat) (ops : List ResOp) : Array Ev := ops.foldl (ResOp.apply cap) #[]
def offeredBy (ops : List ResOp) : List Ev := ops.foldl (fun acc o => o.offered ++ acc) []

theorem runRes_aux (cap : Nat) (ops : List ResOp) (a : Array Ev) (off : List Ev)
    (hi : ResInv cap a) (h : TopInv cap a off) :
    ResInv cap (ops.foldl (ResOp.apply cap) a) ∧
    TopInv cap (ops.foldl (ResOp.apply cap) a) (ops.foldl (fun acc o => o.offered ++ acc) off) := by
  induction ops generalizing a off with
  | nil => exact ⟨hi, h⟩
  | cons o ops ih =>
    simp only [List.foldl_cons]
    cases o with
    | add e => exact ih _ _ (resAddArr_inv cap a e hi) (resAddArr_top cap a e off hi h)
    | addSyn e => exact ih _ _ (resAddArr_inv cap a _ hi) (resAddArr_top cap a _ off hi h)
    | merge c =>
      have := resFold_inv_top cap c.toList a off hi h
      exact ih _ _ this.1 this.2

/-- **C06 (events).**  After any history of offers, synthetics offers and merges into a reservoir of capacity `K`,
the retained events are a top-`K` selection of everything offered in the period: retained ⊎ dropped = offered,
no dropped event has a higher priority than a retained one, and exactly `min(|offered|, K)` are retained. -/
theorem C06_reservoir_topk (K : Nat) (ops : List ResOp) :
    ∃ dropped, ((runRes K ops).toList ++ dropped).Perm (offeredBy ops) ∧
      (∀ d ∈ dropped, ∀ k ∈ (runRes K ops).toList, d.prio ≤ k.prio) ∧
      (runRes K ops).size = min (offeredBy ops).length K := by
  have h := runRes_aux K ops #[] [] (resInv_empty K) (topInv_empty K)
  obtain ⟨hi, ht⟩ := h
  have hs := topInv_size K _ _ hi.1 ht
  obtain ⟨dropped, hp, hd, _⟩ := ht
  exact ⟨dropped, hp, hd, hs⟩

/-- **C06 (zero capacity keeps nothing).** -/
theorem C06_reservoir_zero_capacity (ops : List ResOp) : (runRes 0 ops).size = 0 := by
  obtain ⟨_, _, _, hs⟩ := C06_reservoir_topk 0 ops
  simpa using hs

/-- **C06 (synthetics outrank).**  With sampling priorities in their documented range `[0, 2)` a synthetics
event is never dropped while a non-synthetics event is retained. -/
theorem C06_synthetics_outrank (K : Nat) (ops : List ResOp)
    (hrange : ∀ o ∈ ops, match o with
      | .add e => e.prio < 2000000
      | .addSyn e => 0 ≤ e.prio
      | .merge _ => True) :
    ∃ dropped, ((runRes K ops).toList ++ dropped).Perm (offeredBy ops) ∧
      ∀ d ∈ dropped, 2000000 ≤ d.prio → ∀ k ∈ (runRes K ops).toList, 2000000 ≤ k.prio := by
  obtain ⟨dropped, hp, hd, _⟩ := C06_reservoir_topk K ops
  refine ⟨dropped, hp, ?_⟩
  intro d hdm hsyn k hk
  have := hd d hdm k hk
  omega

/-- errors: the operations are offers only -/
def runErr (cap : Nat) : List Ev → Option (Array Ev)
  | [] => some #[]
  | e :: es => match runErr cap es with   -- `es` are the earlier offers (list is newest first)
    | some a => errAdd cap a e
    | none => none

/-- **C06 (errors).**  For every offer sequence (newest first) into an error heap of capacity `K > 0` the call
never fails, and the retained errors are a top-`K` selection of the offered ones. -/
theorem C06_errors_topk (K : Nat) (hK : 0 < K) (es : List Ev) :
    ∃ a, runErr K es = some a ∧ a.size = min es.length K ∧ IsHeap evKey a ∧
      ∃ dropped, (a.toList ++ dropped).Perm es ∧ ∀ d ∈ dropped, ∀ k ∈ a.toList, d.prio ≤ k.prio := by
  induction es with
  | nil =>
    refine ⟨#[], rfl, by simp, ?_, [], by simp, by simp⟩
    intro _ c hc; simp at hc
  | cons e es ih =>
    obtain ⟨a, hr, hs, hh, dropped, hp, hd⟩ := ih
    have hti : TopInv K a es := by
      refine ⟨dropped, hp, hd, fun hlt => ?_⟩
      have hl := hp.length_eq
      simp at hl
      have : dropped.length = 0 := by omega
      exact List.eq_nil_of_length_eq_zero this
    have hsz : a.size ≤ K := by omega
    have hsome : ∃ a', errAdd K a e = some a' := by
      unfold errAdd
      split
      · next hfull =>
        have : 0 < a.size := by omega
        simp only [this, dite_true]
        split <;> exact ⟨_, rfl⟩
      · exact ⟨_, rfl⟩
    obtain ⟨a', ha'⟩ := hsome
    obtain ⟨h1, h2, h3⟩ := errAdd_inv_top K a a' e es hsz hh hti ha'
    have hs' := topInv_size K a' (e :: es) h1 h3
    obtain ⟨dr', hp', hd', _⟩ := h3
    exact ⟨a', by simp [runErr, hr, ha'], hs', h2, dr', hp', hd'⟩

/-- **C06 (errors, stability).**  A retained error is displaced only by a later error of strictly higher
priority: if a call to a full heap changes it, the new error's priority exceeds the minimum retained one. -/
theorem C06_errors_stable (K : Nat) (a a' : Array Ev) (e : Ev) (h0 : 0 < a.size) (hfull : a.size = K)
    (hr : errAdd K a e = some a') (hne : a' ≠ a) : a[0].prio < e.prio :=
  errAdd_displaces_only_lower K a a' e h0 hfull hr hne

def runTrace (cap : Nat) : List Ev → Option (Array Ev)
  | [] => some #[]
  | e :: es => match runTrace cap es with
    | some a => traceAdd cap a e
    | none => none

/-- **C06 (traces).**  For every offer sequence into a trace heap of capacity `K > 0` (K = 1, 10, 20 in the
daemon, pinned by `Gen.Limits`) the retained traces are the longest-running ones. -/
theorem C06_traces_longest (K : Nat) (hK : 0 < K) (es : List Ev) :
    ∃ a, runTrace K es = some a ∧ a.size = min es.length K ∧ IsHeap evKey a ∧
      ∃ dropped, (a.toList ++ dropped).Perm es ∧ ∀ d ∈ dropped, ∀ k ∈ a.toList, d.prio ≤ k.prio := by
  induction es with
  | nil =>
    refine ⟨#[], rfl, by simp, ?_, [], by simp, by simp⟩
    intro _ c hc; simp at hc
  | cons e es ih =>
    obtain ⟨a, hr, hs, hh, dropped, hp, hd⟩ := ih
    have hti : TopInv K a es := by
      refine ⟨dropped, hp, hd, fun hlt => ?_⟩
      have hl := hp.length_eq
      simp at hl
      have : dropped.length = 0 := by omega
      exact List.eq_nil_of_length_eq_zero this
    have hsz : a.size ≤ K := by omega
    have hsome : ∃ a', traceAdd K a e = some a' := by
      unfold traceAdd
      split
      · exact ⟨_, rfl⟩
      · next hfull =>
        have : 0 < a.size := by omega
        simp only [this, dite_true]
        split <;> exact ⟨_, rfl⟩
    obtain ⟨a', ha'⟩ := hsome
    obtain ⟨h1, h2, h3⟩ := traceAdd_inv_top K a a' e es hsz hh hti ha'
    have hs' := topInv_size K a' (e :: es) h1 h3
    obtain ⟨dr', hp', hd', _⟩ := h3
    exact ⟨a', by simp [runTrace, hr, ha'], hs', h2, dr', hp', hd'⟩

/-- the daemon's fixed capacities are positive, so the two theorems above apply to them (regenerated) -/
theorem C06_fixed_capacities_positive :
    0 < Gen.Limits.MaxErrors ∧ 0 < Gen.Limits.MaxRegularTraces ∧ 0 < Gen.Limits.MaxForcePersistTraces ∧
    0 < Gen.Limits.MaxSyntheticsTraces := by decide

/-! sanity test (evaluated, not a proof; the theorems above have no hypotheses that could be vacuous): a concrete
over-capacity history with a synthetics event and a carried-over reservoir. -/
#guard (runRes 2 [.add ⟨5, 1⟩, .add ⟨7, 2⟩, .addSyn ⟨1, 3⟩, .merge #[⟨9, 4⟩, ⟨5, 5⟩]]).toList.map (·.prio)
    == [9, 2000001]

/-! ## Slow SQLs (`Model/SlowSQL.lean`, `Lemmas/SlowSQL.lean`) -/

theorem slowFold_inv (cap : Nat) (obs : List Slow) (l seen : List Slow) (h : SlowInv cap l seen) :
    SlowInv cap (obs.foldl (slowObserve cap) l) (seen ++ obs) := by
  induction obs generalizing l seen with
  | nil => simpa using h
  | cons o obs ih =>
    have := ih _ _ (slowObserve_inv cap l seen o h)
    simpa [List.append_assoc] using this

/-- **C06 (slow SQLs).**  For every capacity K (K = 10 in the daemon, pinned by `Gen.Limits`; 0 included) and every sequence
of observations, in any order and with any repetitions: at most K statements are retained, each id once; and every
observation ever made is accounted for — either it was merged into a retained statement whose maximum duration is at least
its own, or the collection is full, its statement is not retained, and it is no slower than any retained statement.  So
the retained statements are the ones with the largest maximum duration. -/
theorem C06_slow_sql_topk (cap : Nat) (obs : List Slow) :
    let res := obs.foldl (slowObserve cap) []
    res.length ≤ cap ∧ (res.map (·.id)).Nodup ∧
    ∀ o ∈ obs, (∃ r ∈ res, r.id = o.id ∧ o.max ≤ r.max) ∨
               (res.length = cap ∧ (∀ r ∈ res, r.id ≠ o.id) ∧ ∀ r ∈ res, o.max ≤ r.max) := by
  have h := slowFold_inv cap obs [] [] ⟨by simp, by simp, by simp⟩
  exact ⟨h.len, h.ids, fun o ho => h.cov o (by simpa using ho)⟩

/-- **C06 (repeated observations are merged).**  Counts and totals are added, the minimum and the maximum are kept, and
the text is that of the slowest observation. -/
theorem C06_slow_sql_merge (s o : Slow) :
    (s.merge o).id = s.id ∧ (s.merge o).count = s.count + o.count ∧ (s.merge o).total = s.total + o.total ∧
    (s.merge o).min = Nat.min s.min o.min ∧ (s.merge o).max = Nat.max s.max o.max ∧
    (s.merge o).text = if o.max > s.max then o.text else s.text := by
  unfold Slow.merge
  dsimp only
  by_cases h1 : o.min < s.min <;> by_cases h2 : o.max > s.max <;>
    simp [h1, h2, Nat.min_def, Nat.max_def] <;> omega

/-- **C06 (tie: the heap orders are the code's).**  `ErrorHeap.Less`, `TxnTraceHeap.Less` and
`SamplingPriority.IsLowerPriority` (the order of the event reservoirs), as translated from the source on this run, compare
their keys with `<` — the order the transcription of `container/heap` (`GoHeap.less`) is instantiated with. -/
theorem C06_heap_orders_tied (p q : Int) :
    Gen.Decisions.errorLess p q = decide (p < q) ∧ Gen.Decisions.traceLess p q = decide (p < q) ∧
    Gen.Decisions.isLowerPriority p q = decide (p < q) := tied_less p q

/-- **C06 (tie).**  `eventsAddEvent`: fill, heap initialisation at capacity, then replace the minimum only by a higher priority. -/
theorem C06_add_event_source_tied : Gen.Skeleton.eventsAddEvent = Reviewed.eventsAddEvent := rfl
