import NrDaemon.Lemmas.HarvestReqs
import NrDaemon.Props.Reviewed
import NrDaemon.Gen.Skeleton
import NrDaemon.Model.Proc
import NrDaemon.Gen.SwapTable
import NrDaemon.Lemmas.Ledger
import NrDaemon.Lemmas.Containers
/-!
  C01 — accepted data is delivered exactly once when the collector accepts.

  `Gen.SwapTable` is regenerated from `processor.go` on every run: one row per container handled by
  `harvestByType`, with the statement positions of "save the old container", "install a fresh one" and "hand the
  saved one to the sender".
-/
open Gen.SwapTable

def containers : List String :=
  ["Metrics", "Errors", "SlowSQLs", "TxnTraces", "PhpPackages", "CustomEvents", "ErrorEvents", "TxnEvents", "SpanEvents", "LogEvents"]

def expectedCfg : String → String
  | "CustomEvents" => "CustomEventConfig" | "ErrorEvents" => "ErrorEventConfig" | "TxnEvents" => "AnalyticEventConfig"
  | "SpanEvents" => "SpanEventConfig" | "LogEvents" => "LogEventConfig" | _ => ""

def expectedGuard : String → String
  | "CustomEvents" => "HarvestCustomEvents" | "ErrorEvents" => "HarvestErrorEvents" | "TxnEvents" => "HarvestTxnEvents"
  | "SpanEvents" => "HarvestSpanEvents" | "LogEvents" => "HarvestLogEvents" | _ => "HarvestDefaultData"

/-- **C01 (swap-then-send, by type; over the regenerated table).**  Each of the ten containers is handled by exactly
one branch of `harvestByType`, under the harvest-type bit of its own category; in that branch the old container is
saved, a fresh container is installed, and only then the saved one is handed to the sender; an event category is
re-created with, and guarded by, the limit of its own category. -/
theorem C01_swap_complete :
    rows.map (·.field) = containers ∧
    rows.all (fun r => r.guard == expectedGuard r.field && decide (0 ≤ r.saveIdx) && decide (r.saveIdx < r.installIdx) &&
                       decide (r.installIdx < r.sendIdx) && r.sentSaved &&
                       r.limitGuard == expectedCfg r.field && r.ctorArg == expectedCfg r.field) = true := by
  decide

/-- **C01 (swap-then-send, all at once).**  `harvestAll` sends each of the ten containers exactly once, and the
caller installs a whole fresh `Harvest` before handing the old one over. -/
theorem C01_harvest_all_complete :
    allSends.length = 10 ∧ (∀ c ∈ containers, allSends.count c = 1) ∧ allInstallsBeforeSend = true := by
  decide

/-- **C01 (an empty container is never sent, a non-empty one becomes exactly one request).** -/
theorem C01_consider_one_request (s : PState) (a : HArgs) (cat : Cat) (p : Payload) :
    (p.isEmpty = true → (consider s a cat p).2 = [] ∧ (consider s a cat p).1 = s) ∧
    (p.isEmpty = false → (consider s a cat p).2.length = 1 ∧
      (consider s a cat p).1.inflight = s.inflight ++ (consider s a cat p).2) := by
  unfold consider
  constructor
  · intro h; simp [h]
  · intro h; simp [h]



/-! ## The ledger of one event category across harvest cycles (`Model/Ledger.lean`) -/

/-- **C01 (every event is in exactly one place, all histories).**  For every capacity, every attempt limit and every
history of offers, harvests (swap-then-send), acknowledgements, retryable failures (`MergeFailed`) and fatal failures, in
any order and with any number of requests in flight: the events in the current reservoir, in unanswered requests and
acknowledged by the collector, together with the events dropped (refused or displaced at capacity, given up at the
attempt limit, failed fatally), are exactly the events that were offered — as multisets, so nothing is duplicated and
nothing vanishes unaccounted. -/
theorem C01_event_ledger (cap limit : Nat) (evs : List CatEvent) :
    let s := (CatM.init cap limit).run evs
    ∃ lost, (s.cur.evs.toList ++ s.inflight.flatMap (·.evs.toList) ++ s.acked ++ lost).Perm s.offered :=
  catRun_conserved _ evs ⟨[], by simp [CatM.init, CatM.held, Res.new]⟩

/-- **C01 (delivered at most once).**  If the offered events are pairwise distinct, no event is acknowledged twice, and an
acknowledged event is neither waiting in the reservoir nor part of a request still in flight (so it cannot be sent again). -/
theorem C01_delivered_at_most_once (cap limit : Nat) (evs : List CatEvent)
    (hd : ((CatM.init cap limit).run evs).offered.Nodup) :
    let s := (CatM.init cap limit).run evs
    s.acked.Nodup ∧ ∀ e ∈ s.acked, e ∉ s.cur.evs.toList ∧ e ∉ s.inflight.flatMap (·.evs.toList) := by
  obtain ⟨lost, hp⟩ := C01_event_ledger cap limit evs
  have hn := hp.nodup_iff.mpr hd
  dsimp only
  simp only [List.nodup_append, List.append_assoc] at hn
  obtain ⟨_, ⟨_, ⟨hacked, _, _⟩, hdisj2⟩, hdisj1⟩ := hn
  refine ⟨hacked, fun e he => ⟨?_, ?_⟩⟩
  · intro hc
    exact hdisj1 e hc e (by simp [he]) rfl
  · intro hc
    exact hdisj2 e hc e (by simp [he]) rfl

/-- **C01 (exactly once when there is room and the collector accepts).**  Events offered to a fresh reservoir that has
room for all of them, harvested and acknowledged, are delivered — all of them, each once. -/
theorem C01_all_delivered_when_accepted (cap limit : Nat) (es : List Ev) (hroom : es.length ≤ cap) (hne : es ≠ []) :
    ((CatM.init cap limit).run (es.map .offer ++ [.harvest, .ack 0])).acked.Perm es := by
  -- the offers
  have hoffers : ∀ (l : List Ev) (s : CatM), (s.run (l.map .offer)).cur.evs = l.foldl (resAddArr s.cur.cap) s.cur.evs ∧
      (s.run (l.map .offer)).cur.cap = s.cur.cap ∧ (s.run (l.map .offer)).inflight = s.inflight ∧
      (s.run (l.map .offer)).acked = s.acked ∧ (s.run (l.map .offer)).cap = s.cap := by
    intro l
    induction l with
    | nil => intro s; simp [CatM.run]
    | cons e l ih =>
      intro s
      have := ih (s.step (.offer e))
      simp only [List.map_cons, CatM.run, List.foldl_cons] at *
      simpa [CatM.step, Res.add] using this
  have h0 := hoffers es (CatM.init cap limit)
  have hperm := resFold_room cap es #[] (by simpa using hroom)
  simp only [CatM.run, List.foldl_append] at *
  generalize hs : List.foldl CatM.step (CatM.init cap limit) (es.map .offer) = s1 at *
  obtain ⟨hevs, _, hinf, hack, _⟩ := h0
  have hevs' : s1.cur.evs = es.foldl (resAddArr cap) #[] := by simpa [CatM.init, Res.new] using hevs
  have hlen : (es.foldl (resAddArr cap) #[]).size = es.length := by
    have := hperm.length_eq
    simpa using this
  have hpos : 0 < es.length := List.length_pos_iff.mpr hne
  have hnonempty : s1.cur.evs.isEmpty = false := by
    rw [hevs']
    cases hsz : (es.foldl (resAddArr cap) #[]).isEmpty with
    | false => rfl
    | true => rw [Array.isEmpty_iff_size_eq_zero] at hsz; omega
  simp only [List.foldl_cons, List.foldl_nil, CatM.step, hnonempty, Bool.false_eq_true, if_false]
  simp only [hinf, hack, CatM.init, List.nil_append, List.getElem?_cons_zero]
  rw [hevs']
  simpa using hperm

/-! ## The ledger of every other category (`Model/GLedger.lean`, `Model/Containers.lean`)

The same machine with the container abstracted (`GM`): offers, swap-then-send harvests, acknowledgements, retryable and
fatal failures in any order, any number of requests in flight.  `gLedger` proves conservation for every *lawful*
container; each container of a harvest is shown lawful in `Lemmas/Containers.lean`.  Which categories merge a failed
payload back (`mergeFailed`) and which drop it is the regenerated `FailedHarvest` table (`C02_retry_categories`). -/

/-- **C01 (errors: every error is in exactly one place, all histories, every capacity).** -/
theorem C01_error_ledger (cap : Nat) (evs : List (GEvent Ev)) :
    let s := (GM.init (errCont cap)).run (errCont cap) evs
    ∃ lost, (s.cur.toList ++ s.inflight.flatMap (·.toList) ++ s.acked ++ lost).Perm s.offered :=
  gLedger (errCont cap) _ (errCont_lawful cap) evs

/-- **C01 (traces of one kind).** -/
theorem C01_trace_ledger (cap : Nat) (evs : List (GEvent Ev)) :
    let s := (GM.init (traceCont cap)).run (traceCont cap) evs
    ∃ lost, (s.cur.toList ++ s.inflight.flatMap (·.toList) ++ s.acked ++ lost).Perm s.offered :=
  gLedger (traceCont cap) _ (traceCont_lawful cap) evs

/-- **C01 (package lists): a later list replaces an earlier one, which is then accounted as dropped.** -/
theorem C01_package_ledger (evs : List (GEvent Nat)) :
    let s := (GM.init pkgCont).run pkgCont evs
    ∃ lost, (s.cur.toList ++ s.inflight.flatMap (·.toList) ++ s.acked ++ lost).Perm s.offered :=
  gLedger pkgCont _ pkgCont_lawful evs

/-- **C01 (slow SQLs): every observation is merged into exactly one statement that is held, in flight or
acknowledged, or was dropped with its statement.** -/
theorem C01_slowsql_ledger (cap : Nat) (evs : List (GEvent Obs)) :
    let s := (GM.init (slowCont cap)).run (slowCont cap) evs
    ∃ lost, (s.cur.flatMap (·.2) ++ s.inflight.flatMap (fun l => l.flatMap (·.2)) ++ s.acked ++ lost).Perm s.offered :=
  gLedger (slowCont cap) _ (slowCont_lawful cap) evs

/-- **C01 (metrics): every contribution is aggregated into exactly one table entry that is held, in flight or
acknowledged, or was refused at the capacity limit / given up at the attempt limit / failed fatally — for every
capacity, every attempt limit and every history, carried-over tables included.** -/
theorem C01_metric_ledger (max limit : Nat) (evs : List (GEvent Contrib)) :
    let s := (GM.init (mtCont max limit)).run (mtCont max limit) evs
    ∃ lost, (s.cur.ms.flatMap (·.2.2) ++ s.inflight.flatMap (fun t => t.ms.flatMap (·.2.2)) ++ s.acked ++ lost).Perm s.offered :=
  gLedger (mtCont max limit) _ (mtCont_lawful max limit) evs

/-- **C01 (nothing is delivered twice, every category).**  With pairwise distinct units of data, for each of the
containers: nothing is acknowledged twice, and what has been acknowledged is neither held nor in flight any more. -/
theorem C01_at_most_once_every_category :
    (∀ cap (evs : List (GEvent Ev)), ((GM.init (errCont cap)).run (errCont cap) evs).offered.Nodup →
        ((GM.init (errCont cap)).run (errCont cap) evs).acked.Nodup) ∧
    (∀ cap (evs : List (GEvent Ev)), ((GM.init (traceCont cap)).run (traceCont cap) evs).offered.Nodup →
        ((GM.init (traceCont cap)).run (traceCont cap) evs).acked.Nodup) ∧
    (∀ (evs : List (GEvent Nat)), ((GM.init pkgCont).run pkgCont evs).offered.Nodup →
        ((GM.init pkgCont).run pkgCont evs).acked.Nodup) ∧
    (∀ cap (evs : List (GEvent Obs)), ((GM.init (slowCont cap)).run (slowCont cap) evs).offered.Nodup →
        ((GM.init (slowCont cap)).run (slowCont cap) evs).acked.Nodup) ∧
    (∀ max limit (evs : List (GEvent Contrib)), ((GM.init (mtCont max limit)).run (mtCont max limit) evs).offered.Nodup →
        ((GM.init (mtCont max limit)).run (mtCont max limit) evs).acked.Nodup ∧
        ∀ c ∈ ((GM.init (mtCont max limit)).run (mtCont max limit) evs).acked,
          c ∉ ((GM.init (mtCont max limit)).run (mtCont max limit) evs).cur.ms.flatMap (·.2.2)) :=
  ⟨fun cap evs h => (gLedger_at_most_once _ _ (errCont_lawful cap) evs h).1,
   fun cap evs h => (gLedger_at_most_once _ _ (traceCont_lawful cap) evs h).1,
   fun evs h => (gLedger_at_most_once _ _ pkgCont_lawful evs h).1,
   fun cap evs h => (gLedger_at_most_once _ _ (slowCont_lawful cap) evs h).1,
   fun max limit evs h => ⟨(gLedger_at_most_once _ _ (mtCont_lawful max limit) evs h).1,
     fun c hc => ((gLedger_at_most_once _ _ (mtCont_lawful max limit) evs h).2 c hc).1⟩⟩

/-- **C01 (the ghost-carrying containers are the containers).**  Forgetting the ghosts, the slow-SQL and metric
containers of the ledger machines are exactly `slowObserve`, `MTable.mergeMetric` and `MTable.mergeFailed` — the
definitions the engines `slow` and `mt` compare with the real `SlowSQLs` and `MetricTable` after every operation. -/
theorem C01_ghosts_refine :
    (∀ cap (l : List SlowG) (o : Obs), (slowObserveG cap l o).map (·.1) = slowObserve cap (l.map (·.1)) o.1) ∧
    (∀ (t : MTG) k m g, t.Inv → (t.mergeG k m g).proj = t.proj.mergeMetric k m) ∧
    (∀ limit (t p : MTG), t.Inv → (t.mergeFailed limit p).proj = t.proj.mergeFailed limit p.proj) :=
  ⟨slowObserveG_proj, MTG.mergeG_proj, fun limit t p h => MTG.mergeFailed_proj limit t p h⟩

/-- non-vacuity: a metric history with a refusal at capacity, a carried-over table and an acknowledgement -/
example :
    let c1 : Contrib := (("a", ""), { forced := false, d := ⟨1, 2, 3, 4, 5, 6⟩ }, 1)
    let c2 : Contrib := (("b", ""), { forced := false, d := ⟨1, 2, 3, 4, 5, 6⟩ }, 2)
    let c3 : Contrib := (("a", ""), { forced := false, d := ⟨1, 1, 1, 1, 1, 1⟩ }, 3)
    let s := (GM.init (mtCont 1 5)).run (mtCont 1 5) [.offer c1, .offer c2, .harvest, .offer c3, .retry 0, .harvest, .ack 0]
    s.acked.map (·.2.2) = [3, 1] ∧ s.offered.length = 3 := by decide


/-! ## Ties to the current source: the functions transcribed by the model have not changed since they were reviewed (`Props/Reviewed.lean`) -/

/-- **C01 (tie).**  `harvestAll`: the combined harvest sends each container of the detached harvest once. -/
theorem C01_harvest_all_source_tied : Gen.Skeleton.harvestAll = Reviewed.harvestAll := rfl

/-- **C01 (tie).**  `harvestByType`: each branch saves the containers, installs fresh ones and hands the saved ones to exactly one request. -/
theorem C01_harvest_by_type_source_tied : Gen.Skeleton.harvestByType = Reviewed.harvestByType := rfl

/-- **C01 (tie).**  `eventsSplit`: a split payload is two independent reservoirs that partition the events. -/
theorem C01_split_source_tied : Gen.Skeleton.eventsSplit = Reviewed.eventsSplit := rfl


/-! ## What a harvest leaves behind (processor model): sent means detached -/

/-- **C01 (combined harvest: nothing stays behind).**  After the all-at-once harvest the run holds a completely fresh harvest
of the negotiated capacities; every container that was handed to a request (`C04_request_payload`) is gone from it, so the
live harvest can never send it a second time. -/
theorem C01_combined_harvest_installs_fresh (s : PState) (runId : String) (run : RunM) (app : AppM) (cfg : RunCfg) (a : HArgs) :
    getRun (harvestAllPart s runId run app cfg a).1 runId = some { run with h := HarvestM.new cfg } :=
  harvestAllPart_installs_fresh s runId run app cfg a

/-- **C01 (per-category harvest: what is sent is replaced in the same step, the rest is untouched).**  For every tick mask:
the reservoir of each event category whose bit is set (and whose limit is not zero) is a fresh one of the negotiated
capacity afterwards, and a category that is not harvested keeps exactly what it held - whatever the other branches did. -/
theorem C01_by_type_harvest_swaps_exactly (s : PState) (runId : String) (run : RunM) (app : AppM) (cfg : RunCfg) (mask : Nat) (a : HArgs) :
    ∃ h', getRun (harvestTypesPart s runId run app cfg mask a).1 runId = some { run with h := h' } ∧
      h'.custom = (if (hasBit mask 32 && cfg.limCustom != 0) then Res.new cfg.limCustom else run.h.custom) ∧
      h'.errEv = (if (hasBit mask 64 && cfg.limErr != 0) then Res.new cfg.limErr else run.h.errEv) ∧
      h'.txn = (if (hasBit mask 16 && cfg.limTxn != 0) then Res.new cfg.limTxn else run.h.txn) ∧
      h'.span = (if (hasBit mask 128 && cfg.limSpan != 0) then Res.new cfg.limSpan else run.h.span) ∧
      h'.log = (if (hasBit mask 256 && cfg.limLog != 0) then Res.new cfg.limLog else run.h.log) :=
  harvestTypesPart_reservoirs s runId run app cfg mask a

/-- **C01 (tie).**  `considerHarvestPayload`: an empty container is not sent; a non-empty one gets exactly one sender. -/
theorem C01_consider_payload_source_tied : Gen.Skeleton.considerHarvestPayload = Reviewed.considerHarvestPayload := rfl

/-- **C01 (tie).**  `newAnalyticsEvents`: every reservoir owns a freshly made slice of its capacity. -/
theorem C01_new_reservoir_source_tied : Gen.Skeleton.newAnalyticsEvents = Reviewed.newAnalyticsEvents := rfl
