import NrDaemon.Model.Proc
import NrDaemon.Gen.SwapTable
/-!
  C01 — accepted data is delivered exactly once when the collector accepts.

  `Gen.SwapTable` is regenerated from `processor.go` on every run: one row per container handled by
  `harvestByType`, with the statement positions of "save the old container", "install a fresh one" and "hand the
  saved one to the sender".
-/
open Gen.SwapTable

def containers : List String :=
  ["Metrics", "Errors", "SlowSQLs", "TxnTraces", "PhpPackages", "CustomEvents", "ErrorEvents", "TxnEvents", "SpanEvents", "LogEvents"]

def expectedCfg : String → String
  | "CustomEvents" => "CustomEventConfig" | "ErrorEvents" => "ErrorEventConfig" | "TxnEvents" => "AnalyticEventConfig"
  | "SpanEvents" => "SpanEventConfig" | "LogEvents" => "LogEventConfig" | _ => ""

def expectedGuard : String → String
  | "CustomEvents" => "HarvestCustomEvents" | "ErrorEvents" => "HarvestErrorEvents" | "TxnEvents" => "HarvestTxnEvents"
  | "SpanEvents" => "HarvestSpanEvents" | "LogEvents" => "HarvestLogEvents" | _ => "HarvestDefaultData"

/-- **C01 (swap-then-send, by type; over the regenerated table).**  Each of the ten containers is handled by exactly
one branch of `harvestByType`, under the harvest-type bit of its own category; in that branch the old container is
saved, a fresh container is installed, and only then the saved one is handed to the sender; an event category is
re-created with, and guarded by, the limit of its own category. -/
theorem C01_swap_complete :
    rows.map (·.field) = containers ∧
    rows.all (fun r => r.guard == expectedGuard r.field && decide (0 ≤ r.saveIdx) && decide (r.saveIdx < r.installIdx) &&
                       decide (r.installIdx < r.sendIdx) && r.sentSaved &&
                       r.limitGuard == expectedCfg r.field && r.ctorArg == expectedCfg r.field) = true := by
  decide

/-- **C01 (swap-then-send, all at once).**  `harvestAll` sends each of the ten containers exactly once, and the
caller installs a whole fresh `Harvest` before handing the old one over. -/
theorem C01_harvest_all_complete :
    allSends.length = 10 ∧ (∀ c ∈ containers, allSends.count c = 1) ∧ allInstallsBeforeSend = true := by
  decide

/-- **C01 (an empty container is never sent, a non-empty one becomes exactly one request).** -/
theorem C01_consider_one_request (s : PState) (a : HArgs) (cat : Cat) (p : Payload) :
    (p.isEmpty = true → (consider s a cat p).2 = [] ∧ (consider s a cat p).1 = s) ∧
    (p.isEmpty = false → (consider s a cat p).2.length = 1 ∧
      (consider s a cat p).1.inflight = s.inflight ++ (consider s a cat p).2) := by
  unfold consider
  constructor
  · intro h; simp [h]
  · intro h; simp [h]

