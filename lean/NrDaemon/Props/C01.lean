import NrDaemon.Model.Proc
/-! C01 — accepted data is delivered exactly once when the collector accepts (theorems added below as they are proved). -/

/-- **C01 (an empty container is never sent, a non-empty one is sent as exactly one request).** -/
theorem C01_consider_one_request (s : PState) (a : HArgs) (cat : Cat) (p : Payload) :
    (p.isEmpty = true → (consider s a cat p).2 = [] ∧ (consider s a cat p).1 = s) ∧
    (p.isEmpty = false → (consider s a cat p).2.length = 1 ∧
      (consider s a cat p).1.inflight = s.inflight ++ (consider s a cat p).2) := by
  unfold consider
  constructor
  · intro h; simp [h]
  · intro h; simp [h]
