import NrDaemon.Model.Limits
import NrDaemon.Lemmas.Reservoir
import NrDaemon.Lemmas.Metrics
import NrDaemon.Props.C06
import NrDaemon.Lemmas.AppLimit
import NrDaemon.Props.Tied
import NrDaemon.Gen.Skeleton
/-!
  C05 — buffers are bounded by the negotiated capacities and counted exactly.
-/
open Gen.Limits GoHeap

/-- **C05 (effective capacity = min(daemon maximum, collector limit)).**  For each event category the negotiated
limit is the collector's when present, non-negative and not above the maximum; the maximum when absent or above;
and a negative value makes the connect reply fail. -/
theorem C05_limits_negotiated (raw : Option Int) (rate dl dr : Nat) :
    (raw = none → getEventConfig raw rate dl dr = some ⟨dl, dr⟩) ∧
    (∀ l, raw = some l → l < 0 → getEventConfig raw rate dl dr = none) ∧
    (∀ l, raw = some l → 0 ≤ l → getEventConfig raw rate dl dr = some ⟨min l dl, rate⟩) := by
  refine ⟨fun h => by subst h; rfl, fun l h hl => by subst h; simp [getEventConfig, hl], fun l h hl => ?_⟩
  subst h
  have : ¬ l < 0 := by omega
  simp only [getEventConfig, this, if_false]
  congr 2
  split <;> omega

/-- every negotiated limit lies between 0 and the daemon maximum of its category -/
theorem C05_negotiated_in_range (r : RawReply) (n : Negotiated) (h : negotiate r = some n) (hp : r.ehcPresent = true)
    (hs : r.sehcPresent = true) :
    0 ≤ n.cfgs.err.limit ∧ n.cfgs.err.limit ≤ MaxErrorEvents ∧
    0 ≤ n.cfgs.txn.limit ∧ n.cfgs.txn.limit ≤ MaxTxnEvents ∧
    0 ≤ n.cfgs.custom.limit ∧ n.cfgs.custom.limit ≤ MaxCustomMaxEvents ∧
    0 ≤ n.cfgs.span.limit ∧ n.cfgs.span.limit ≤ MaxSpanMaxEvents ∧
    0 ≤ n.cfgs.log.limit ∧ n.cfgs.log.limit ≤ MaxLogMaxEvents := by
  have key : ∀ raw rate dl dr c, getEventConfig raw rate dl dr = some c → 0 ≤ c.limit ∧ c.limit ≤ dl := by
    intro raw rate dl dr c hc
    unfold getEventConfig at hc
    split at hc
    · cases hc; simp
    · split at hc
      · cases hc
      · cases hc; simp only; split <;> omega
  unfold negotiate at h
  simp only [hp, hs, if_true] at h
  split at h
  · next n' s hn hsp =>
    cases h
    split at hn
    · next e a c sp l he ha hc hsp' hl =>
      cases hn
      have h1 := key _ _ _ _ _ he
      have h2 := key _ _ _ _ _ ha
      have h3 := key _ _ _ _ _ hc
      have h4 := key _ _ _ _ _ hl
      have h5 := key _ _ _ _ _ hsp
      simp only
      omega
    · cases hn
  · cases h

/-- **C05 (advertised limits)**: the daemon maxima, lowered to the agent's span, log and custom settings when
those are within `[0, max)`. -/
theorem C05_advertised (span log custom : Int) :
    let a := newHarvestLimits span log custom
    a.err.limit = MaxErrorEvents ∧ a.txn.limit = MaxTxnEvents ∧
    a.span.limit = (if 0 ≤ span ∧ span < MaxSpanMaxEvents then span else MaxSpanMaxEvents) ∧
    a.log.limit = (if 0 ≤ log ∧ log < MaxLogMaxEvents then log else MaxLogMaxEvents) ∧
    a.custom.limit = (if 0 ≤ custom ∧ custom < MaxCustomMaxEvents then custom else MaxCustomMaxEvents) := by
  simp only [newHarvestLimits]
  refine ⟨trivial, trivial, ?_, ?_, ?_⟩ <;> (split <;> split <;> first | rfl | omega)

/-- **C05 (log cap)**: the final log limit is the smaller of the collector's limit and the agent's limit scaled
to the collector's report period; it is never negative when the collector's limit is not. -/
theorem C05_log_cap (agent collector : Int) (period : Nat) (ha : 0 ≤ agent) (hc : 0 ≤ collector) :
    finalLogLimit agent collector period = min (scaledAgentLogLimit agent period) collector ∧
    0 ≤ finalLogLimit agent collector period := by
  have hs : 0 ≤ scaledAgentLogLimit agent period := by
    unfold scaledAgentLogLimit
    apply Int.tdiv_nonneg
    · exact Int.mul_nonneg ha (Int.natCast_nonneg _)
    · exact Int.natCast_nonneg _
  unfold finalLogLimit
  simp only
  split <;> constructor <;> omega

/-- a negative agent limit (out-of-range conversion) never produces a negative capacity -/
theorem C05_log_cap_never_negative (agent collector : Int) (period : Nat) (hc : 0 ≤ collector) :
    0 ≤ finalLogLimit agent collector period := by
  unfold finalLogLimit
  simp only
  split <;> omega

/-- **C05 (event reservoirs are bounded and counted)**: after any history, the reservoir holds at most its capacity. -/
theorem C05_reservoir_bound (K : Nat) (ops : List ResOp) : (runRes K ops).size ≤ K := by
  obtain ⟨_, _, _, hs⟩ := C06_reservoir_topk K ops
  omega

/-- `numSeen` counts every offer (`Res.add`) and adds up across merges -/
theorem C05_reservoir_seen_add (r : Res) (e : Ev) : (r.add e).seen = r.seen + 1 := rfl

theorem C05_reservoir_seen_merge (r o : Res) : (r.merge o).seen = r.seen + o.seen := rfl

/-- **C05 (metric table: refusal)**: a new unforced metric offered to a full table is refused, counted once in
`numDropped`, and changes nothing else. -/
theorem C05_metrics_refuse (t : MTable) (k : MKey) (m : Metric)
    (hnew : t.find k = none) (hfull : t.count ≥ t.max) (hu : m.forced = false) :
    t.mergeMetric k m = { t with dropped := t.dropped + 1 } := by
  unfold MTable.mergeMetric
  simp [hnew, hfull, hu]

/-- **C05 (metric table: admission)**: in every other case (known key, room, or forced) the metric is recorded,
nothing is counted as dropped, and `count` stays the number of entries. -/
theorem C05_metrics_admit (t : MTable) (k : MKey) (m : Metric) (hc : t.count = t.ms.length)
    (h : t.count < t.max ∨ m.forced = true ∨ (t.find k).isSome) :
    let t' := t.mergeMetric k m
    t'.dropped = t.dropped ∧ (t'.find k).isSome ∧ t'.count = t'.ms.length := by
  simp only
  rw [mergeMetric_eq_admitted t k m h]
  refine ⟨?_, ?_, ?_⟩
  · unfold MTable.mergeAdmitted; split <;> rfl
  · rw [find_mergeAdmitted]; simp
  · unfold MTable.mergeAdmitted; split <;> simp [hc, updAssoc]

/-- unforced entries never exceed the capacity: an insertion that adds an unforced entry happens below it -/
theorem C05_metrics_unforced_bound (t : MTable) (k : MKey) (m : Metric) (hu : m.forced = false)
    (hgrow : (t.mergeMetric k m).count = t.count + 1) : t.count < t.max := by
  unfold MTable.mergeMetric at hgrow
  cases hf : t.find k with
  | some o => simp [hf] at hgrow
  | none =>
    simp only [hf, hu] at hgrow
    by_cases hfull : t.count ≥ t.max
    · simp [hfull] at hgrow
    · omega

/-- the fixed capacities (regenerated from limits.go) are the documented ones -/
theorem C05_documented_capacities :
    MaxMetrics = 2000 ∧ MaxErrors = 20 ∧ MaxSlowSQLs = 10 ∧ MaxRegularTraces = 1 ∧ MaxForcePersistTraces = 10 ∧
    MaxSyntheticsTraces = 20 ∧ AppLimit = 250 := by decide

/-! ## The application cap over all histories of the processor loop (`Lemmas/AppLimit.lean`) -/

/-- **C05 (never more than 250 applications, all histories).**  Start the processor with no application; after any
sequence of agent queries (known and unknown applications, with or without run ids), transactions, harvest triggers,
replies of any kind in any order and clock advances, every list of pairwise distinct applications the processor knows
has at most `AppLimit` (= 250, regenerated from limits.go) entries.  Forgotten (inactive) applications free their
place. -/
theorem C05_app_limit_all_histories (s : PState) (es : List PEvent) (h0 : s.apps = []) (l : List String)
    (hnd : l.Nodup) (hk : ∀ h ∈ l, (appCfg (s.runEvents es) h).isSome) : l.length ≤ 250 := by
  have hb : AppsBounded s := by
    intro l' ht
    have := tracked_le_length s l' ht
    simp [h0] at this
    simp [this]
  have := runEvents_appsBounded s es hb l ⟨hnd, hk⟩
  simpa [Gen.Limits.AppLimit] using this

/-- … and the cap is not vacuous: below it an unknown application is admitted, at it the query changes nothing -/
theorem C05_app_limit_gate (s : PState) (rid : Option String) (cfg : AppCfg)
    (hn : getApp s cfg.handle = none) (hl : s.apps.length ≥ 250) : (processAppInfo s rid cfg).1 = s :=
  processAppInfo_full s rid cfg hn (by simpa [Gen.Limits.AppLimit] using hl)

/-- **C05 (tie: the table-full test is the code's).** -/
theorem C05_table_full_tied (t : MTable) :
    decide (t.count ≥ t.max) = Gen.Decisions.tableFull (t.count : Int) (t.max : Int) := tied_tableFull t

/-- **C05 (tie: the negotiation functions are the code's).**  The model's `getEventConfig`, `newHarvestLimits` and
`finalLogLimit` equal `getEventConfig`, `NewHarvestLimits` and `processLogEventLimits` as translated (symbolic execution of
the current source by the extractor, `Gen/Negotiation.lean`) for all inputs — so `C05_limits_negotiated`,
`C05_advertised`, `C05_log_cap` … are statements about the functions the daemon runs. -/
theorem C05_negotiation_tied :
    (∀ (raw : Option Int) (cr dl dr : Nat),
      match getEventConfig raw cr dl dr with
      | none => (Gen.Negotiation.getEventConfig cr dl dr (raw.getD 0) raw.isSome).2.2 = true
      | some c => Gen.Negotiation.getEventConfig cr dl dr (raw.getD 0) raw.isSome = (c.limit, (c.period : Int), false)) ∧
    (∀ span log custom : Int,
      Gen.Negotiation.newHarvestLimits custom log span true =
        ((newHarvestLimits span log custom).err.limit, (newHarvestLimits span log custom).txn.limit,
         (newHarvestLimits span log custom).custom.limit, (newHarvestLimits span log custom).span.limit,
         (newHarvestLimits span log custom).log.limit)) ∧
    (∀ (agent collectorLimit : Int) (collectorPeriod : Nat),
      Gen.Negotiation.processLogEventLimits true true collectorLimit (collectorPeriod : Int) true agent =
        finalLogLimit agent collectorLimit collectorPeriod) :=
  ⟨tied_getEventConfig, fun s l c => (tied_newHarvestLimits s l c).1, fun a c p => (tied_processLogEventLimits a c p).1⟩

/-! ## The fixed capacities as bounds over every offer sequence (corollaries of the C06 theorems) -/

/-- **C05 (never more than 20 errors, 1/10/20 traces, 10 slow SQLs).**  For every sequence of offers, in any order and
with any priorities / durations: the error heap holds exactly `min (offers) 20`, each trace heap `min (offers) K` for its
own K ∈ {1, 10, 20}, and the slow-SQL collection at most 10 statements, each id once. -/
theorem C05_fixed_capacity_bounds :
    (∀ es : List Ev, ∃ a, runErr MaxErrors es = some a ∧ a.size = min es.length 20) ∧
    (∀ es : List Ev, ∃ a, runTrace MaxRegularTraces es = some a ∧ a.size = min es.length 1) ∧
    (∀ es : List Ev, ∃ a, runTrace MaxForcePersistTraces es = some a ∧ a.size = min es.length 10) ∧
    (∀ es : List Ev, ∃ a, runTrace MaxSyntheticsTraces es = some a ∧ a.size = min es.length 20) ∧
    (∀ obs : List Slow, (obs.foldl (slowObserve MaxSlowSQLs) []).length ≤ 10 ∧
      ((obs.foldl (slowObserve MaxSlowSQLs) []).map (·.id)).Nodup) := by
  refine ⟨?_, ?_, ?_, ?_, ?_⟩
  · intro es
    obtain ⟨a, h1, h2, _⟩ := C06_errors_topk MaxErrors (by decide) es
    exact ⟨a, h1, by simpa [MaxErrors] using h2⟩
  · intro es
    obtain ⟨a, h1, h2, _⟩ := C06_traces_longest MaxRegularTraces (by decide) es
    exact ⟨a, h1, by simpa [MaxRegularTraces] using h2⟩
  · intro es
    obtain ⟨a, h1, h2, _⟩ := C06_traces_longest MaxForcePersistTraces (by decide) es
    exact ⟨a, h1, by simpa [MaxForcePersistTraces] using h2⟩
  · intro es
    obtain ⟨a, h1, h2, _⟩ := C06_traces_longest MaxSyntheticsTraces (by decide) es
    exact ⟨a, h1, by simpa [MaxSyntheticsTraces] using h2⟩
  · intro obs
    have h := C06_slow_sql_topk MaxSlowSQLs obs
    exact ⟨by simpa [MaxSlowSQLs] using h.1, h.2.1⟩

/-- `processAppInfo` today: a presented run id is confirmed iff the run is held; a known application only has its activity
refreshed; an unknown one is admitted only below `limits.AppLimit`; in every case the reply is built from the application's
state in a deferred function, which also considers a connect -/
def reviewedProcessAppInfo : List String := [
  "r := <*ast.CompositeLit>",
  "defer func(){if nil!=app {; r.State = app.state; if AppStateConnected==app.state {; r.ConnectReply = app.RawConnectReply; r.SecurityPolicies = app.RawSecurityPolicies; r.ConnectTimestamp = uint64(…); r.HarvestFrequency = uint16(…); r.SamplingTarget = uint16(…); }; }; m.ResultChan <- r; if nil!=app {; p.considerConnect(…); }}()",
  "if nil!=m.ID {",
  "if ok {",
  "r.RunIDValid = true",
  "return",
  "}",
  "}",
  "key := m.Info.Key(…)",
  "app = p.apps[key]",
  "if nil!=app {",
  "app.LastActivity = time.Now(…)",
  "return",
  "}",
  "numapps := len(…)",
  "if numapps>=limits.AppLimit {",
  "return",
  "}",
  "app = NewApp(…)",
  "p.apps[key] = app",
  "numapps = len(…)",
  "if numapps==limits.AppLimitNotifyHigh {",
  "}"
]

/-- **C05 / C03 (tie: the application table is maintained as the model says).** -/
theorem C05_appinfo_source_tied : Gen.Skeleton.processAppInfo = reviewedProcessAppInfo := rfl

/-! ## What is advertised at connect comes from the agent's description alone - at every connect -/

/-- a connect attempt starts from the application's description as it is (which never changes: `C04_identity_stable`) -/
theorem C05_attempt_carries_description (s : PState) (h : String) (app : AppM) (ha : getApp s h = some app) :
    ∀ r ∈ (considerConnect s h).2, r.payload = Payload.pre app.cfg ∧ r.app = h := by
  intro r hr
  unfold considerConnect at hr
  rw [ha] at hr
  simp only [] at hr
  split at hr
  · simp only [List.mem_singleton] at hr
    subst hr
    exact ⟨rfl, rfl⟩
  · simp at hr

/-- … and the connect request of that attempt carries the very same description: the limits it advertises
(`C05_advertised`: the daemon's maxima lowered to the agent's span, log and custom settings) therefore depend on the agent's
settings only — not on the limits or report periods negotiated for an earlier run of the application. -/
theorem C05_connect_carries_preconnect_description (s : PState) (r : Req) (o : Outcome) (host : String) :
    ∀ c ∈ (preconnectReply s r o host).2, ∃ cfg, r.payload = Payload.pre cfg ∧ c.payload = Payload.con cfg host ∧ c.cat = Cat.connect := by
  intro c hc
  unfold preconnectReply at hc
  simp only [] at hc
  split at hc
  · split at hc
    · next cfg hp =>
      simp only [List.mem_singleton] at hc
      subst hc
      exact ⟨cfg, hp, rfl, rfl⟩
    · simp at hc
  · simp at hc
