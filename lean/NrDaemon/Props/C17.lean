import NrDaemon.Model.Race
import NrDaemon.Gen.Ownership
/-!
  C17 — the worker is free of data races: the ownership discipline implies race freedom.
-/

def HBeq (t : List REv) (i a : Nat) : Prop := i = a ∨ HB t i a

def isAccOn (t : List REv) (i : Nat) (x : Loc) : Prop := ∃ g w, t[i]? = some (.acc g x w)

/-- everything that touched `x` so far happens-before (or is) an event of its present owner / the send it travels with -/
def OwnInv (t : List REv) (k : Nat) (o : Loc → Owner) : Prop :=
  ∀ x i, i < k → isAccOn t i x →
    match o x with
    | .by g => ∃ a, a < k ∧ (∃ e, t[a]? = some e ∧ e.gid = g) ∧ HBeq t i a
    | .inFlight m => ∃ a, a < k ∧ (∃ g xs, t[a]? = some (.send g m xs)) ∧ HBeq t i a

theorem hbeq_trans_hb {t : List REv} {i a k : Nat} (h1 : HBeq t i a) (h2 : HB t a k) : HB t i k := by
  rcases h1 with rfl | h
  · exact h2
  · exact HB.trans h h2

theorem ownAt_prefix {o0 : Loc → Owner} {t : List REv} {k : Nat} {o : Loc → Owner}
    (h : ownAt o0 t (k + 1) = some o) : ∃ o', ownAt o0 t k = some o' := by
  unfold ownAt at h
  cases hk : ownAt o0 t k with
  | none => rw [hk] at h; simp at h
  | some o' => exact ⟨o', rfl⟩

theorem ownInv_all (o0 : Loc → Owner) (t : List REv) :
    ∀ k o, k ≤ t.length → ownAt o0 t k = some o → OwnInv t k o := by
  intro k
  induction k with
  | zero => intro o _ _ x i hi; omega
  | succ k ih =>
    intro o hk ho
    obtain ⟨o', ho'⟩ := ownAt_prefix ho
    have hinv := ih o' (by omega) ho'
    have hlt : k < t.length := by omega
    obtain ⟨e, he⟩ : ∃ e, t[k]? = some e := ⟨t[k], by simp [hlt]⟩
    have hstep : stepOwn o' e = some o := by
      unfold ownAt at ho
      rw [ho', he] at ho
      exact ho
    intro x i hi hacc
    cases e with
    | acc g y w =>
      simp only [stepOwn] at hstep
      split at hstep
      · rename_i hoy
        injection hstep with hstep
        subst hstep
        by_cases hik : i = k
        · -- the new access itself
          subst hik
          obtain ⟨g', w', hacc'⟩ := hacc
          rw [he] at hacc'
          injection hacc' with hacc'
          injection hacc' with h1 h2 h3
          subst h1; subst h2
          rw [hoy]
          exact ⟨i, by omega, ⟨_, he, rfl⟩, Or.inl rfl⟩
        · have hi' : i < k := by omega
          have := hinv x i hi' hacc
          by_cases hxy : x = y
          · subst hxy
            rw [hoy] at this ⊢
            obtain ⟨a, ha, ⟨ea, hea, hg⟩, hhb⟩ := this
            refine ⟨k, by omega, ⟨_, he, rfl⟩, Or.inr (hbeq_trans_hb hhb (HB.po ha hea he hg))⟩
          · cases hox : o' x with
            | «by» g' =>
              rw [hox] at this
              obtain ⟨a, ha, hea, hhb⟩ := this
              exact ⟨a, by omega, hea, hhb⟩
            | inFlight m =>
              rw [hox] at this
              obtain ⟨a, ha, hea, hhb⟩ := this
              exact ⟨a, by omega, hea, hhb⟩
      · cases hstep
    | send g m xs =>
      simp only [stepOwn] at hstep
      split at hstep
      · rename_i hall
        injection hstep with hstep
        subst hstep
        have hi' : i < k := by
          rcases Nat.lt_or_ge i k with h | h
          · exact h
          · have : i = k := by omega
            subst this
            obtain ⟨g', w', hacc'⟩ := hacc
            rw [he] at hacc'; cases hacc'
        have := hinv x i hi' hacc
        by_cases hx : x ∈ xs
        · simp only [hx, if_true]
          have hox : o' x = .by g := by
            have := List.all_eq_true.mp hall x hx
            simpa using this
          rw [hox] at this
          obtain ⟨a, ha, ⟨ea, hea, hg⟩, hhb⟩ := this
          exact ⟨k, by omega, ⟨g, xs, he⟩, Or.inr (hbeq_trans_hb hhb (HB.po ha hea he hg))⟩
        · simp only [hx, if_false]
          cases hox : o' x with
          | «by» g' =>
            rw [hox] at this
            obtain ⟨a, ha, hea, hhb⟩ := this
            exact ⟨a, by omega, hea, hhb⟩
          | inFlight m' =>
            rw [hox] at this
            obtain ⟨a, ha, hea, hhb⟩ := this
            exact ⟨a, by omega, hea, hhb⟩
      · cases hstep
    | recv g m =>
      simp only [stepOwn] at hstep
      injection hstep with hstep
      subst hstep
      have hi' : i < k := by
        rcases Nat.lt_or_ge i k with h | h
        · exact h
        · have : i = k := by omega
          subst this
          obtain ⟨g', w', hacc'⟩ := hacc
          rw [he] at hacc'; cases hacc'
      have := hinv x i hi' hacc
      by_cases hox : o' x = .inFlight m
      · simp only [hox, if_true]
        rw [hox] at this
        obtain ⟨a, ha, ⟨gs, xs, hsend⟩, hhb⟩ := this
        exact ⟨k, by omega, ⟨_, he, rfl⟩, Or.inr (hbeq_trans_hb hhb (HB.msg ha hsend he))⟩
      · simp only [hox, if_false]
        cases hox' : o' x with
        | «by» g' =>
          rw [hox'] at this
          obtain ⟨a, ha, hea, hhb⟩ := this
          exact ⟨a, by omega, hea, hhb⟩
        | inFlight m' =>
          rw [hox'] at this
          obtain ⟨a, ha, hea, hhb⟩ := this
          exact ⟨a, by omega, hea, hhb⟩

theorem ownAt_mono {o0 : Loc → Owner} {t : List REv} {n : Nat} (h : (ownAt o0 t n).isSome) :
    ∀ k, k ≤ n → (ownAt o0 t k).isSome := by
  induction n with
  | zero => intro k hk; have : k = 0 := by omega
            subst this; exact h
  | succ n ih =>
    intro k hk
    rcases Nat.lt_or_ge k (n + 1) with h1 | h1
    · apply ih _ k (by omega)
      cases hn : ownAt o0 t n with
      | none => unfold ownAt at h; rw [hn] at h; simp at h
      | some o => rfl
    · have : k = n + 1 := by omega
      subst this; exact h

/-- **C17 (the ownership discipline orders every pair of accesses, in every interleaving).**  In any trace — any number
of goroutines, any interleaving, any pattern of messages — that obeys the ownership rule, any two accesses to the same
location are ordered by happens-before (program order and message edges only).  In particular no two conflicting accesses
are concurrent: the trace has no data race. -/
theorem C17_disciplined_race_free (o0 : Loc → Owner) (t : List REv) (hd : disciplined o0 t = true)
    (i j : Nat) (hij : i < j) (x : Loc) (hi : isAccOn t i x) (hj : isAccOn t j x) : HB t i j := by
  simp only [disciplined, Bool.and_eq_true] at hd
  obtain ⟨gj, wj, hjacc⟩ := hj
  have hjlt : j < t.length := by
    rcases Nat.lt_or_ge j t.length with h | h
    · exact h
    · rw [List.getElem?_eq_none h] at hjacc; cases hjacc
  -- ownership just before event j, and the rule at event j
  have hsj := ownAt_mono hd.1 j (by omega)
  have hsj1 := ownAt_mono hd.1 (j + 1) (by omega)
  obtain ⟨o, ho⟩ := Option.isSome_iff_exists.mp hsj
  have hinv := ownInv_all o0 t j o (by omega) ho
  have hown : o x = .by gj := by
    unfold ownAt at hsj1
    rw [ho, hjacc] at hsj1
    simp only [stepOwn] at hsj1
    split at hsj1
    · assumption
    · simp at hsj1
  have := hinv x i hij hi
  rw [hown] at this
  obtain ⟨a, ha, ⟨ea, hea, hg⟩, hhb⟩ := this
  exact hbeq_trans_hb hhb (HB.po ha hea hjacc hg)

/-- a race: two accesses to one location, one of them a write, not ordered either way -/
def isRace (t : List REv) (i j : Nat) : Prop :=
  ∃ x g g' w w', t[i]? = some (.acc g x w) ∧ t[j]? = some (.acc g' x w') ∧ (w = true ∨ w' = true) ∧
    ¬ HB t i j ∧ ¬ HB t j i

theorem C17_no_race (o0 : Loc → Owner) (t : List REv) (hd : disciplined o0 t = true) (i j : Nat) (hne : i ≠ j) :
    ¬ isRace t i j := by
  intro ⟨x, g, g', w, w', hi, hj, _, h1, h2⟩
  rcases Nat.lt_or_ge i j with h | h
  · exact h1 (C17_disciplined_race_free o0 t hd i j h x ⟨g, w, hi⟩ ⟨g', w', hj⟩)
  · exact h2 (C17_disciplined_race_free o0 t hd j i (by omega) x ⟨g', w', hj⟩ ⟨g, w, hi⟩)

/-! ## Sanity: the discipline accepts the worker's hand-over patterns and rejects the shutdown-path mutation -/

/-- processor (goroutine 0) fills a container (location 7), hands it to a sender goroutine (1) with message 100,
which reads it, while the processor goes on with a fresh container (location 8) -/
def handOver : List REv :=
  [.acc 0 7 true, .send 0 100 [7], .acc 0 8 true, .recv 1 100, .acc 1 7 false, .acc 0 8 true]

example : disciplined (fun _ => .by 0) handOver = true := by decide

/-- `CleanExit` on the signal goroutine (2) writing a processor field (location 3) that a listener goroutine (1) reads,
with no message between them: rejected -/
def shutdownMutation : List REv :=
  [.acc 1 3 false, .acc 2 3 true]

example : disciplined (fun x => if x = 3 then .by 1 else .by 0) shutdownMutation = false := by decide

/-! ## The regenerated tie: who touches the Processor's fields -/

def inter (a b : List String) : List String := a.filter (fun x => b.contains x)

/-- **C17 (regenerated from the current processor.go): only the processor goroutine touches processor state.**  Of the
methods of `Processor` that run on other goroutines (the `AgentDataHandler` methods on listener goroutines, `CleanExit`
and `quit` on the signal goroutine): none assigns a field that another of them reads or assigns; and one that assigns a
field, reads a field the processor goroutine assigns, or calls one of the processor goroutine's methods does so only
after sending on `quitChan` as its first statement — the message that ends `Run` and hands the processor's state over
(`C17_disciplined_race_free` with that send/receive pair as the message edge). -/
theorem C17_processor_ownership :
    (Gen.Ownership.outside.all (fun o =>
      Gen.Ownership.outside.all (fun o' =>
        o.method == o'.method || (inter o.writes (o'.reads ++ o'.writes)).isEmpty))) = true ∧
    (Gen.Ownership.outside.all (fun o =>
      (o.writes.isEmpty && (inter o.reads Gen.Ownership.runSideWrites).isEmpty && o.callsRunSide.isEmpty) ||
        o.first == "send:p.quitChan")) = true ∧
    Gen.Ownership.runSideMethods.contains "Run" = true := by
  decide
