import NrDaemon.Lemmas.Frame
import NrDaemon.Gen.Skeleton
/-!
  C09 — socket framing is lossless, bounded and self-delineating.
  `isLegacyAgent`, `maxMessageSize` (2 MiB) and `msgHeaderSize` are regenerated from listener.go on every run.
-/
open Gen.Listener

/-- **C09 (fragmentation is irrelevant).**  However the transport fragments the byte stream, the same messages are
delivered and the connection ends the same way. -/
theorem C09_fragmentation_irrelevant (fuel : Nat) (cs1 cs2 : Chunks) (h : cs1.flatten = cs2.flatten) :
    readAll fuel cs1 = readAll fuel cs2 := by
  rw [readAll_spec, readAll_spec, h]

theorem toNat_ofNat_mod (n : Nat) : (UInt8.ofNat (n % 256)).toNat = n % 256 := by
  simp [UInt8.toNat_ofNat']

theorem rd32_le32 (n : Nat) (h : n < 4294967296) (tail : Bytes) : rd32 (le32 n ++ tail) = n := by
  simp only [rd32, le32, List.cons_append, List.getD_cons_zero, List.getD_cons_succ, List.nil_append]
  simp only [toNat_ofNat_mod]
  omega

theorem le32_length (n : Nat) : (le32 n).length = 4 := rfl

/-- **C09 (no collision with the legacy header).**  A header announcing at most 2 MiB is never mistaken for a
legacy agent's greeting, whatever the type code. -/
theorem C09_no_legacy_collision (size ty : Nat) (h : size ≤ maxMessageSize) (tail : Bytes) :
    isLegacyAgent (le32 size ++ le32 ty ++ tail) = false := by
  have h3 : size / 16777216 % 256 = 0 := by
    have : maxMessageSize = 2097152 := rfl
    omega
  simp only [isLegacyAgent, byteAt, le32, List.cons_append, List.nil_append, List.length_cons]
  simp [h3]

theorem parse1_frame (ty : Nat) (body tail : Bytes) (hb : body.length ≤ maxMessageSize) (ht : ty < 4294967296) :
    parse1 (encodeFrame ty body ++ tail) = .msg ty body tail := by
  have hmax : maxMessageSize = 2097152 := rfl
  have hhs : msgHeaderSize = 8 := rfl
  have hlen : (encodeFrame ty body ++ tail).length = 8 + body.length + tail.length := by
    simp [encodeFrame, le32_length]; omega
  have htake : (encodeFrame ty body ++ tail).take msgHeaderSize = le32 body.length ++ le32 ty := by
    simp [encodeFrame, hhs, le32, List.take]
  have hdrop : (encodeFrame ty body ++ tail).drop msgHeaderSize = body ++ tail := by
    simp [encodeFrame, hhs, le32, List.drop]
  unfold parse1
  have h0 : ¬ (encodeFrame ty body ++ tail).length = 0 := by omega
  have h1 : ¬ (encodeFrame ty body ++ tail).length < msgHeaderSize := by omega
  simp only [h0, h1, if_false, htake, hdrop]
  have hleg : isLegacyAgent (le32 body.length ++ le32 ty) = false := by
    have := C09_no_legacy_collision body.length ty hb []
    simpa using this
  have hsz : rd32 (le32 body.length ++ le32 ty) = body.length := rd32_le32 _ (by omega) _
  have hty : rd32 ((le32 body.length ++ le32 ty).drop 4) = ty := by
    have : (le32 body.length ++ le32 ty).drop 4 = le32 ty ++ [] := by simp [le32]
    rw [this]; exact rd32_le32 _ ht _
  simp only [hleg, hsz, hty, Bool.false_eq_true, if_false]
  have h2 : ¬ body.length > maxMessageSize := by omega
  have h3 : ¬ (body ++ tail).length < body.length := by simp
  simp [h2, h3]

def encodeAll (msgs : List (Nat × Bytes)) : Bytes := (msgs.map (fun m => encodeFrame m.1 m.2)).flatten

def WellFormed (msgs : List (Nat × Bytes)) : Prop :=
  ∀ m ∈ msgs, m.2.length ≤ maxMessageSize ∧ m.1 < 4294967296

/-- **C09 (round trip).**  Any sequence of messages (bodies of 0 … 2 MiB, any 32-bit type code) written to a
connection is read back as the same sequence of (type, bytes), and then the clean end of stream. -/
theorem C09_roundtrip (msgs : List (Nat × Bytes)) (h : WellFormed msgs) (fuel : Nat) (hf : msgs.length < fuel) :
    parseAll fuel (encodeAll msgs) = (msgs, .eof) := by
  induction msgs generalizing fuel with
  | nil =>
    cases fuel with
    | zero => omega
    | succ f => simp [parseAll, encodeAll, parse1]
  | cons m ms ih =>
    cases fuel with
    | zero => simp at hf
    | succ f =>
      have hm := h m (by simp)
      have hms : WellFormed ms := fun x hx => h x (by simp [hx])
      have e : encodeAll (m :: ms) = encodeFrame m.1 m.2 ++ encodeAll ms := by simp [encodeAll]
      rw [e]
      unfold parseAll
      rw [parse1_frame m.1 m.2 _ hm.1 hm.2]
      simp only
      rw [ih hms f (by simp at hf; omega)]

/-- the same through any fragmentation of the transport -/
theorem C09_roundtrip_chunked (msgs : List (Nat × Bytes)) (h : WellFormed msgs) (cs : Chunks)
    (hc : cs.flatten = encodeAll msgs) (fuel : Nat) (hf : msgs.length < fuel) :
    readAll fuel cs = (msgs, .eof) := by
  rw [readAll_spec, hc]; exact C09_roundtrip msgs h fuel hf

/-- **C09 (oversize is rejected before the body is touched).**  A header announcing more than 2 MiB ends the
connection with an error; the outcome does not depend on (and the reader does not consume or allocate for) anything
after the header. -/
theorem C09_oversize_rejected (hdr tail1 tail2 : Bytes) (hl : hdr.length = msgHeaderSize)
    (hleg : isLegacyAgent hdr = false) (hbig : rd32 hdr > maxMessageSize) :
    parse1 (hdr ++ tail1) = .errTooLarge (rd32 hdr) ∧ parse1 (hdr ++ tail2) = .errTooLarge (rd32 hdr) := by
  have hhs : msgHeaderSize = 8 := rfl
  have key : ∀ tail : Bytes, parse1 (hdr ++ tail) = .errTooLarge (rd32 hdr) := by
    intro tail
    unfold parse1
    have h0 : ¬ (hdr ++ tail).length = 0 := by rw [List.length_append]; omega
    have h1 : ¬ (hdr ++ tail).length < msgHeaderSize := by rw [List.length_append]; omega
    have ht : (hdr ++ tail).take msgHeaderSize = hdr := by
      rw [← hl]; simp
    simp only [h0, h1, if_false, ht, hleg, Bool.false_eq_true, hbig, if_true]
  exact ⟨key tail1, key tail2⟩

/-- in the chunk-level reader the oversize outcome is reached after exactly one `ReadFull` (the header): no body
buffer is allocated -/
theorem C09_oversize_unallocated (cs : Chunks) (a : Nat) (h : parse1 cs.flatten = .errTooLarge a) :
    readMessage cs = .errTooLarge a := by
  have hs := readMessage_spec cs
  rw [h] at hs
  cases hr : readMessage cs <;> rw [hr] at hs <;> simp [ReadOut.abs] at hs
  subst hs; rfl

/-- **C09 (legacy header).**  A legacy-format header ends the connection, whatever follows. -/
theorem C09_legacy_rejected (hdr tail : Bytes) (hl : hdr.length = msgHeaderSize) (hleg : isLegacyAgent hdr = true) :
    parse1 (hdr ++ tail) = .errLegacy := by
  have hhs : msgHeaderSize = 8 := rfl
  unfold parse1
  have h0 : ¬ (hdr ++ tail).length = 0 := by rw [List.length_append]; omega
  have h1 : ¬ (hdr ++ tail).length < msgHeaderSize := by rw [List.length_append]; omega
  have ht : (hdr ++ tail).take msgHeaderSize = hdr := by rw [← hl]; simp
  simp only [h0, h1, if_false, ht, hleg, if_true]

/-- **C09 (replies).**  A reply is written as exactly one frame of the request's type: reading the writer's output
yields that one message and nothing else. -/
theorem C09_reply_one_frame (ty : Nat) (reply : Bytes) (hr : reply.length ≤ maxMessageSize) (ht : ty < 4294967296) :
    parseAll 2 (encodeFrame ty reply) = ([(ty, reply)], .eof) := by
  have := C09_roundtrip [(ty, reply)] (by intro m hm; simp at hm; subst hm; exact ⟨hr, ht⟩) 2 (by simp)
  simpa [encodeAll] using this

theorem encodeFrame_length (ty : Nat) (body : Bytes) : (encodeFrame ty body).length = 8 + body.length := by
  simp [encodeFrame, le32_length]; omega

/-- a frame cut anywhere before its end never yields a message -/
theorem parse1_truncated_frame (ty : Nat) (body : Bytes) (hb : body.length ≤ maxMessageSize) (n : Nat)
    (hn : n < (encodeFrame ty body).length) :
    parse1 ((encodeFrame ty body).take n) = .eof ∨ parse1 ((encodeFrame ty body).take n) = .errHeader ∨
    parse1 ((encodeFrame ty body).take n) = .errBody := by
  have hhs : msgHeaderSize = 8 := rfl
  have hFl := encodeFrame_length ty body
  have hlen : ((encodeFrame ty body).take n).length = n := by
    rw [List.length_take]; omega
  unfold parse1
  by_cases h0 : n = 0
  · left; simp [h0]
  · by_cases h8 : n < 8
    · right; left
      simp only [hlen, h0, hhs, h8, if_false, if_true]
    · right; right
      have ht : ((encodeFrame ty body).take n).take msgHeaderSize = le32 body.length ++ le32 ty := by
        rw [List.take_take, hhs]
        have : min 8 n = 8 := by omega
        rw [this]; simp [encodeFrame, le32, List.take]
      have hleg : isLegacyAgent (le32 body.length ++ le32 ty) = false := by
        simpa using C09_no_legacy_collision body.length ty hb []
      have hmax : maxMessageSize = 2097152 := rfl
      have hsz : rd32 (le32 body.length ++ le32 ty) = body.length := rd32_le32 _ (by omega) _
      have hd : (((encodeFrame ty body).take n).drop msgHeaderSize).length < body.length := by
        rw [List.length_drop, hlen, hhs]; omega
      have hngt : ¬ body.length > maxMessageSize := by omega
      rw [hhs] at ht hd
      have hd' : ¬ ¬ (((encodeFrame ty body).take n).drop 8).length < body.length := by omega
      simp only [hlen, h0, hhs, h8, if_false, ht, hleg, Bool.false_eq_true, hsz, hngt, hd, if_true]

/-- **C09 (truncation never delivers a partial message).**  If a stream of well-formed frames is cut anywhere
before its end, the reader delivers a prefix of the messages (only complete ones) and then ends the connection
with end-of-stream or an error. -/
theorem C09_truncation_no_partial (msgs : List (Nat × Bytes)) (h : WellFormed msgs) (n : Nat)
    (hn : n < (encodeAll msgs).length) (fuel : Nat) (hf : msgs.length < fuel) :
    ∃ k e, k < msgs.length ∧ parseAll fuel ((encodeAll msgs).take n) = (msgs.take k, e) ∧
      (e = .eof ∨ e = .errHeader ∨ e = .errBody) := by
  induction msgs generalizing n fuel with
  | nil => simp [encodeAll] at hn
  | cons m ms ih =>
    cases fuel with
    | zero => simp at hf
    | succ f =>
      have hm := h m (by simp)
      have hms : WellFormed ms := fun x hx => h x (by simp [hx])
      have e : encodeAll (m :: ms) = encodeFrame m.1 m.2 ++ encodeAll ms := by simp [encodeAll]
      rw [e] at hn ⊢
      rw [List.take_append]
      by_cases hcut : n < (encodeFrame m.1 m.2).length
      · -- the cut falls inside the first frame
        have hz : n - (encodeFrame m.1 m.2).length = 0 := by omega
        rw [hz]; simp only [List.take_zero, List.append_nil]
        refine ⟨0, ?_⟩
        have := parse1_truncated_frame m.1 m.2 hm.1 n hcut
        unfold parseAll
        rcases this with h1 | h1 | h1 <;> rw [h1] <;> simp
      · -- the first frame is complete
        have hfull : (encodeFrame m.1 m.2).take n = encodeFrame m.1 m.2 := List.take_of_length_le (by omega)
        rw [hfull]
        have hn' : n - (encodeFrame m.1 m.2).length < (encodeAll ms).length := by
          rw [List.length_append] at hn; omega
        obtain ⟨k, e', hk, hp, he⟩ := ih hms _ hn' f (by simp at hf; omega)
        refine ⟨k + 1, e', by simp; omega, ?_, he⟩
        unfold parseAll
        rw [parse1_frame m.1 m.2 _ hm.1 hm.2]
        simp only [hp, List.take_succ_cons]

/-- `ReadMessage` and `MessageWriter.Write` today: header with `io.ReadFull`, EOF passed on only when nothing was read, the
legacy check, the size cap BEFORE the body is allocated, the body with `io.ReadFull`; the writer sends the header, then the
body only if the header went out — what `Model/Frame.lean` transcribes -/
def reviewedReadMessage : List String := [
  "header := <*ast.CompositeLit>",
  "_, err := io.ReadFull(…)",
  "if nil!=err {",
  "if err==io.EOF {",
  "return <*ast.CompositeLit>, err",
  "}",
  "return <*ast.CompositeLit>, fmt.Errorf(…)",
  "}",
  "if isLegacyAgent(<*ast.SliceExpr>) {",
  "return <*ast.CompositeLit>, errLegacyAgent",
  "}",
  "msgType := MessageType(…)",
  "dataSize := byteOrder.Uint32(…)",
  "if dataSize>maxMessageSize {",
  "if msgType!=MessageTypeBinary {",
  "}",
  "return <*ast.CompositeLit>, fmt.Errorf(…)",
  "}",
  "msg := make(…)",
  "_, err = io.ReadFull(…)",
  "if nil!=err {",
  "return <*ast.CompositeLit>, fmt.Errorf(…)",
  "}",
  "return <*ast.CompositeLit>, nil"
]
def reviewedMessageWrite : List String := [
  "nw, err := mw.writeHeader(…)",
  "if nw>0 {",
  "n += nw",
  "}",
  "if err==nil&&len(p)>0 {",
  "nw, err = mw.W.Write(…)",
  "if nw>0 {",
  "n += nw",
  "}",
  "}",
  "return"
]

/-- **C09 (tie: the frame model transcribes the code).** -/
theorem C09_framing_source_tied :
    Gen.Skeleton.readMessage = reviewedReadMessage ∧ Gen.Skeleton.messageWrite = reviewedMessageWrite := ⟨rfl, rfl⟩
