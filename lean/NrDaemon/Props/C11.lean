import NrDaemon.Props.Reviewed
import NrDaemon.Gen.Skeleton
import NrDaemon.Lemmas.Proc
import NrDaemon.Gen.Worker
import NrDaemon.Gen.Skeleton
/-!
  C11 — shutdown flushes every application and terminates.
-/
open Gen.Limits

/-- **C11 (termination).**  The final flush returns for every state, every set of runs and every assignment of
outcomes to the final requests: failed final requests are not handed to the (stopped) processor loop. -/
theorem C11_terminates (s : PState) (outcomeOf : Req → Outcome) (order : List String) :
    (cleanExit s outcomeOf order).2.2 = true := by
  unfold cleanExit
  suffices h : ∀ (acc : PState × List Req × Bool), acc.2.2 = true →
      (order.foldl (fun (acc : PState × List Req × Bool) runId =>
        let (s, reqs, alive) := acc
        if !alive then acc else
        match getRun s runId with
        | none => acc
        | some run =>
          let (s, rs) := doHarvest s runId run maskAll
          let s := rs.foldl (fun s r => { s with inflight := s.inflight.filter (·.id != r.id) }) s
          (s, reqs ++ rs, alive)) acc).2.2 = true by
    exact h _ rfl
  induction order with
  | nil => intro acc h; exact h
  | cons r rs ih =>
    intro acc h
    simp only [List.foldl_cons]
    apply ih
    obtain ⟨s', reqs, alive⟩ := acc
    simp only at h
    subst h
    simp only [Bool.not_true, Bool.false_eq_true, if_false]
    split <;> rfl

/-- the outcome assignment has no influence on what is flushed -/
theorem C11_outcomes_irrelevant (s : PState) (o1 o2 : Req → Outcome) (order : List String) :
    (cleanExit s o1 order).2.1 = (cleanExit s o2 order).2.1 := rfl

/-- **C11 (flush is complete, all-at-once harvest).**  In the all-at-once harvest used by the final flush, every
non-empty container handed to `considerMany` becomes a request (exactly the ten categories of
`C01_harvest_all_complete`). -/
theorem C11_flush_complete (s : PState) (a : HArgs) (l : List (Cat × Payload)) :
    ∀ x ∈ l, x.2.isEmpty = false → ∃ r ∈ (considerMany s a l).2, r.cat = x.1 ∧ r.payload = x.2 :=
  considerMany_complete s a l

/-- the final flush harvests every category: the mask it uses has all ten bits -/
theorem C11_flush_mask : maskAll % 1024 = maskAll ∧ (∀ b ∈ [1, 2, 4, 8, 16, 32, 64, 128, 256, 512], hasBit maskAll b = true) := by
  decide

/-! ## The worker's shutdown sequence (regenerated from cmd/daemon/worker.go: `Gen.Worker`) -/

/-- **C11 (tie: stop accepting, then flush, then return).**  On the termination signal `runWorker` first cancels the
listener's context (whose goroutine closes the listening socket), then calls `CleanExit`, and does nothing else before it
returns; the worker listens for SIGTERM (and SIGINT in the foreground). -/
theorem C11_shutdown_order_tied :
    Gen.Worker.onSignal = ["cancel", "log.Infof", "p.CleanExit", "log.Infof"] ∧
    Gen.Worker.onCtxDone = ["list.Close"] ∧
    Gen.Worker.notified = ["syscall.SIGTERM", "syscall.SIGINT"] := by decide

/-- `Processor.CleanExit` today: stop the loop (a rendezvous with `Run`), then one blocking all-at-once harvest per held run -/
def reviewedCleanExit : List String := [
  "p.quitChan <- <*ast.CompositeLit>",
  "for range p.harvests {",
  "p.doHarvest(…)",
  "}"
]

/-- **C11 (tie: the flush the model describes is the code's).** -/
theorem C11_cleanexit_source_tied : Gen.Skeleton.cleanExit = reviewedCleanExit := rfl


/-! ## Ties to the current source: the functions transcribed by the model have not changed since they were reviewed (`Props/Reviewed.lean`) -/

/-- **C11 (tie).**  `runLoop`: the loop stops only by taking the quit message in its select. -/
theorem C11_run_loop_source_tied : Gen.Skeleton.runLoop = Reviewed.runLoop := rfl
