import NrDaemon.Model.Proc
/-! C11 — theorems (see DESIGN.md §6). -/
