import NrDaemon.Model.Proc
/-! C04 — theorems (see DESIGN.md §6). -/
