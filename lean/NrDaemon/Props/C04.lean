import NrDaemon.Lemmas.Proc
import NrDaemon.Lemmas.Lifecycle
/-!
  C04 — applications are isolated from each other.
-/
open Gen.Limits

/-- **C04 (data under an unknown, stale or foreign-but-absent run id is dropped).** -/
theorem C04_unknown_dropped (s : PState) (r : String) (t : TxnM) (h : getRun s r = none) :
    processTxn s r t = s := by
  simp [processTxn, h]

/-- **C04 (frame): a transaction for one run leaves every other run's harvest untouched.** -/
theorem C04_txn_frame (s : PState) (r r' : String) (t : TxnM) (hne : r' ≠ r) :
    getRun (processTxn s r t) r' = getRun s r' := by
  unfold processTxn
  split
  · rfl
  · next run hrun =>
    dsimp only
    split
    · exact getRun_setRun_ne s r r' _ hne
    · rw [getRun_setApp]; exact getRun_setRun_ne s r r' _ hne

/-- **C04 (every request made by a harvest carries the harvested application's own parameters).**  For the
event categories, default data and the all-at-once harvest alike: run id, license key, collector host, request
headers and agent language of each emitted request are those captured from the harvested application. -/
theorem C04_request_params (s : PState) (a : HArgs) (l : List (Cat × Payload)) :
    ∀ r ∈ (considerMany s a l).2,
      r.run = a.run ∧ r.license = a.license ∧ r.collector = a.collector ∧ r.hdr = a.hdr ∧ r.lang = a.lang :=
  fun r hr => (considerMany_from s a l r hr).1

/-- … and contains exactly one of the detached containers of that harvest (never another run's data) -/
theorem C04_request_payload (s : PState) (a : HArgs) (l : List (Cat × Payload)) :
    ∀ r ∈ (considerMany s a l).2, (r.cat, r.payload) ∈ l :=
  fun r hr => (considerMany_from s a l r hr).2

/-- the arguments `doHarvest` builds come from the harvested application only -/
theorem C04_args_from_app (s : PState) (runId : String) (run : RunM) (app : AppM) (cfg : RunCfg)
    (ha : getApp s run.app = some app) (hr : app.reply = some cfg)
    (hact : ¬ (s.appTimeout > 0 ∧ s.now - app.lastActivity ≥ s.appTimeout)) (mask : Nat) :
    doHarvest s runId run mask =
      (let a : HArgs := { run := runId, license := app.cfg.license, collector := app.collector, hdr := cfg.hdr,
                          lang := app.cfg.lang, rules := cfg.rules, split := app.cfg.dt, maxPayload := cfg.maxPayload, group := 0 }
       let (s', reqs) := harvestByType s runId run app cfg mask a
       let gid := s'.nextGroup - 1
       let (s'', more) := if s'.groups.any (fun g => g.id == gid && g.outstanding == 0) then settleGroup s' gid else (s', [])
       (s'', reqs ++ more)) := by
  have hc : (decide (s.appTimeout > 0) && decide (s.now - app.lastActivity ≥ s.appTimeout)) = false := by
    by_cases h1 : s.appTimeout > 0 <;> by_cases h2 : s.now - app.lastActivity ≥ s.appTimeout <;> simp_all
  simp only [doHarvest, ha, hc, hr]
  rfl

/-- the data-usage request of a harvest group also carries that harvest's own parameters -/
theorem C04_data_usage_params (s : PState) (gid : Nat) :
    ∀ r ∈ (settleGroup s gid).2, ∃ g ∈ s.groups, g.id = gid ∧ r.run = g.run ∧ r.license = g.license ∧
      r.collector = g.collector ∧ r.hdr = g.hdr := by
  intro r hr
  unfold settleGroup at hr
  split at hr
  · simp at hr
  · next g hg =>
    split at hr
    · simp at hr
    · dsimp only at hr
      split at hr
      · simp at hr
      · simp only [List.mem_singleton] at hr
        subst hr
        have hmem := List.mem_of_find?_eq_some hg
        have hid := List.find?_some hg
        exact ⟨g, hmem, by simpa using hid, rfl, rfl, rfl, rfl⟩

/-! ## Over all histories of the processor loop (`Lemmas/Lifecycle.lean`) -/

/-- **C04 (an application's identity never changes; all histories).**  Once an application is known under a handle, no
sequence of agent queries, transactions, triggers, replies (any outcome, any order) or clock advances changes its
description — license, name, redirect collector, high-security flag, language, host, … — which is what every request made
for its runs is built from (`C04_args_from_app`); the application can only be forgotten (inactivity). -/
theorem C04_identity_stable (s : PState) (es : List PEvent) (h : String) (c : AppCfg) (hc : appCfg s h = some c) :
    appCfg (s.runEvents es) h = some c ∨ ∃ es1 es2, es = es1 ++ es2 ∧ appCfg (s.runEvents es1) h = none := by
  induction es generalizing s with
  | nil => exact Or.inl hc
  | cons e es ih =>
    rcases step_cfg s e h c hc with h1 | h1
    · rcases ih (s.step e) h1 with h2 | ⟨es1, es2, he, hn⟩
      · exact Or.inl h2
      · exact Or.inr ⟨e :: es1, es2, by simp [he], hn⟩
    · exact Or.inr ⟨[e], es, rfl, h1⟩
