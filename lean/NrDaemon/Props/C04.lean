import NrDaemon.Props.Reviewed
import NrDaemon.Gen.Skeleton
import NrDaemon.Lemmas.Proc
import NrDaemon.Lemmas.HarvestReqs
import NrDaemon.Lemmas.Lifecycle
import NrDaemon.Lemmas.AppKey
import NrDaemon.Gen.AppKey
import NrDaemon.Gen.Skeleton
/-!
  C04 — applications are isolated from each other.
-/
open Gen.Limits

/-- **C04 (data under an unknown, stale or foreign-but-absent run id is dropped).** -/
theorem C04_unknown_dropped (s : PState) (r : String) (t : TxnM) (h : getRun s r = none) :
    processTxn s r t = s := by
  simp [processTxn, h]

/-- **C04 (frame): a transaction for one run leaves every other run's harvest untouched.** -/
theorem C04_txn_frame (s : PState) (r r' : String) (t : TxnM) (hne : r' ≠ r) :
    getRun (processTxn s r t) r' = getRun s r' := by
  unfold processTxn
  split
  · rfl
  · next run hrun =>
    dsimp only
    split
    · exact getRun_setRun_ne s r r' _ hne
    · rw [getRun_setApp]; exact getRun_setRun_ne s r r' _ hne

/-- **C04 (every request made by a harvest carries the harvested application's own parameters).**  For the
event categories, default data and the all-at-once harvest alike: run id, license key, collector host, request
headers and agent language of each emitted request are those captured from the harvested application. -/
theorem C04_request_params (s : PState) (a : HArgs) (l : List (Cat × Payload)) :
    ∀ r ∈ (considerMany s a l).2,
      r.run = a.run ∧ r.license = a.license ∧ r.collector = a.collector ∧ r.hdr = a.hdr ∧ r.lang = a.lang :=
  fun r hr => (considerMany_from s a l r hr).1

/-- … and contains exactly one of the detached containers of that harvest (never another run's data) -/
theorem C04_request_payload (s : PState) (a : HArgs) (l : List (Cat × Payload)) :
    ∀ r ∈ (considerMany s a l).2, (r.cat, r.payload) ∈ l :=
  fun r hr => (considerMany_from s a l r hr).2

/-- the arguments `doHarvest` builds come from the harvested application only -/
theorem C04_args_from_app (s : PState) (runId : String) (run : RunM) (app : AppM) (cfg : RunCfg)
    (ha : getApp s run.app = some app) (hr : app.reply = some cfg)
    (hact : ¬ (s.appTimeout > 0 ∧ s.now - app.lastActivity ≥ s.appTimeout)) (mask : Nat) :
    doHarvest s runId run mask =
      (let a : HArgs := { run := runId, license := app.cfg.license, collector := app.collector, hdr := cfg.hdr,
                          lang := app.cfg.lang, rules := cfg.rules, split := app.cfg.dt, maxPayload := cfg.maxPayload, group := 0 }
       let (s', reqs) := harvestByType s runId run app cfg mask a
       let gid := s'.nextGroup - 1
       let (s'', more) := if s'.groups.any (fun g => g.id == gid && g.outstanding == 0) then settleGroup s' gid else (s', [])
       (s'', reqs ++ more)) := by
  have hc : (decide (s.appTimeout > 0) && decide (s.now - app.lastActivity ≥ s.appTimeout)) = false := by
    by_cases h1 : s.appTimeout > 0 <;> by_cases h2 : s.now - app.lastActivity ≥ s.appTimeout <;> simp_all
  simp only [doHarvest, ha, hc, hr]
  rfl

/-- the data-usage request of a harvest group also carries that harvest's own parameters -/
theorem C04_data_usage_params (s : PState) (gid : Nat) :
    ∀ r ∈ (settleGroup s gid).2, ∃ g ∈ s.groups, g.id = gid ∧ r.run = g.run ∧ r.license = g.license ∧
      r.collector = g.collector ∧ r.hdr = g.hdr := by
  intro r hr
  unfold settleGroup at hr
  split at hr
  · simp at hr
  · next g hg =>
    split at hr
    · simp at hr
    · dsimp only at hr
      split at hr
      · simp at hr
      · simp only [List.mem_singleton] at hr
        subst hr
        have hmem := List.mem_of_find?_eq_some hg
        have hid := List.find?_some hg
        exact ⟨g, hmem, by simpa using hid, rfl, rfl, rfl, rfl⟩

/-- **C04 (a harvest event keeps its own run id — live run or not).**  Whatever AppHarvest a harvest event carries (the
run's current one, or that of a run that has been shut down and whose timer tick was still on its way), every request made
for it — by the combined path or by any mixture of per-category branches — carries the run id OF THAT EVENT and the
license key, collector host and request headers captured for it from the application; never the id of the application's
current run. -/
theorem C04_harvest_keeps_event_run_id (s : PState) (runId : String) (run : RunM) (app : AppM) (cfg : RunCfg) (mask : Nat) (a : HArgs) :
    ∀ r ∈ (harvestByType s runId run app cfg mask a).2,
      r.run = a.run ∧ r.license = a.license ∧ r.collector = a.collector ∧ r.hdr = a.hdr ∧ r.lang = a.lang :=
  harvestByType_from s runId run app cfg mask a

/-! ## Over all histories of the processor loop (`Lemmas/Lifecycle.lean`) -/

/-- **C04 (an application's identity never changes; all histories).**  Once an application is known under a handle, no
sequence of agent queries, transactions, triggers, replies (any outcome, any order) or clock advances changes its
description — license, name, redirect collector, high-security flag, language, host, … — which is what every request made
for its runs is built from (`C04_args_from_app`); the application can only be forgotten (inactivity). -/
theorem C04_identity_stable (s : PState) (es : List PEvent) (h : String) (c : AppCfg) (hc : appCfg s h = some c) :
    appCfg (s.runEvents es) h = some c ∨ ∃ es1 es2, es = es1 ++ es2 ∧ appCfg (s.runEvents es1) h = none := by
  induction es generalizing s with
  | nil => exact Or.inl hc
  | cons e es ih =>
    rcases step_cfg s e h c hc with h1 | h1
    · rcases ih (s.step e) h1 with h2 | ⟨es1, es2, he, hn⟩
      · exact Or.inl h2
      · exact Or.inr ⟨e :: es1, es2, by simp [he], hn⟩
    · exact Or.inr ⟨[e], es, rfl, h1⟩

/-! ## Identity of an application (`AppInfo.Key`, `getSupportedPoliciesHash`; `Model/AppKey.lean`) -/

/-- **C04 (what the code compares).**  Two descriptions have the same key iff they agree on license, name, redirect
collector, high-security flag, language, host name, trace-observer host and port, and on the *concatenation* of the
sorted names of their supported policies (the bytes that are hashed). -/
theorem C04_appkey_components (a b : AppDesc) :
    appKey a = appKey b ↔
      (a.license = b.license ∧ a.appname = b.appname ∧ a.redirect = b.redirect ∧ a.highSec = b.highSec ∧
       a.lang = b.lang ∧ hashInput a = hashInput b ∧ a.host = b.host ∧ a.toHost = b.toHost ∧ a.toPort = b.toPort) := by
  constructor
  · intro h
    have := congrArg AppKeyM.license h; have := congrArg AppKeyM.appname h; have := congrArg AppKeyM.redirect h
    have := congrArg AppKeyM.highSec h; have := congrArg AppKeyM.lang h; have := congrArg AppKeyM.policiesInput h
    have := congrArg AppKeyM.host h; have := congrArg AppKeyM.toHost h; have := congrArg AppKeyM.toPort h
    simp_all [appKey]
  · rintro ⟨h1, h2, h3, h4, h5, h6, h7, h8, h9⟩
    simp [appKey, h1, h2, h3, h4, h5, h6, h7, h8, h9]

/-- the sorted list of supported names is a canonical form of the *set* of supported policies -/
theorem C04_supported_canonical (a b : AppDesc) :
    supportedNames a = supportedNames b ↔
      ((a.policies.filter (·.2)).map (·.1)).Perm ((b.policies.filter (·.2)).map (·.1)) :=
  mergeSort_bytes_eq_iff _ _

/-- **C04 (same application iff the eight components agree) — partial.**  The statement of the property, for policy
names that are non-empty and of which none is a proper prefix of another (true of the agent's vocabulary, see
`C04_policy_vocabulary_prefix_free`).  What is missing for arbitrary names is `C04_appkey_collision`. -/
theorem C04_appkey_iff_partial (a b : AppDesc)
    (hne : ∀ n, (n ∈ supportedNames a ∨ n ∈ supportedNames b) → n ≠ [])
    (hpf : ∀ x y, (x ∈ supportedNames a ∨ x ∈ supportedNames b) → (y ∈ supportedNames a ∨ y ∈ supportedNames b) →
      x <+: y → x = y) :
    appKey a = appKey b ↔ sameIdentity a b := by
  rw [C04_appkey_components]
  unfold sameIdentity
  constructor
  · rintro ⟨h1, h2, h3, h4, h5, h6, h7, h8, h9⟩
    exact ⟨h1, h2, h3, h4, h5, flatten_inj_of_prefixFree _ _ hne hpf h6, h7, h8, h9⟩
  · rintro ⟨h1, h2, h3, h4, h5, h6, h7, h8, h9⟩
    exact ⟨h1, h2, h3, h4, h5, by unfold hashInput; rw [h6], h7, h8, h9⟩

/-- one direction holds for all names: descriptions that agree on the eight components have the same key -/
theorem C04_same_identity_same_key (a b : AppDesc) (h : sameIdentity a b) : appKey a = appKey b := by
  rw [C04_appkey_components]
  obtain ⟨h1, h2, h3, h4, h5, h6, h7, h8, h9⟩ := h
  exact ⟨h1, h2, h3, h4, h5, by unfold hashInput; rw [h6], h7, h8, h9⟩

private def exA : AppDesc :=
  { license := [76], appname := [97], redirect := [], highSec := false, lang := [112], host := [104], toHost := [], toPort := 0,
    policies := [([97, 98], true), ([99], true)] }      -- supports "ab", "c"
private def exB : AppDesc := { exA with policies := [([97], true), ([98, 99], true)] }   -- supports "a", "bc"

/-- **C04 (the unrestricted statement is false of the code).**  Names are concatenated without a separator before
hashing: an application supporting the policies `ab`, `c` and one supporting `a`, `bc` differ in their supported
policies and have the same key.  Replayed on the implementation by `corpus/C04/policy_concat.ops` (known finding). -/
private theorem sn_exA : supportedNames exA = [[97, 98], [99]] := by
  show List.mergeSort [[97, 98], [99]] bytesLe = _
  exact List.mergeSort_of_pairwise (by decide)
private theorem sn_exB : supportedNames exB = [[97], [98, 99]] := by
  show List.mergeSort [[97], [98, 99]] bytesLe = _
  exact List.mergeSort_of_pairwise (by decide)

theorem C04_appkey_collision : ∃ a b : AppDesc, ¬ sameIdentity a b ∧ appKey a = appKey b := by
  refine ⟨exA, exB, ?_, ?_⟩
  · intro h
    have h6 := h.2.2.2.2.2.1
    rw [sn_exA, sn_exB] at h6
    exact absurd h6 (by decide)
  · rw [C04_appkey_components]
    refine ⟨rfl, rfl, rfl, rfl, rfl, ?_, rfl, rfl, rfl⟩
    unfold hashInput
    rw [sn_exA, sn_exB]
    decide

/-- fields that are not part of the identity never influence the key -/
theorem C04_appkey_ignores_rest (a : AppDesc) (v d t k : Bytes) (q : Nat) (ps : List (Bytes × Bool))
    (hps : (ps.filter (·.2)).map (·.1) = (a.policies.filter (·.2)).map (·.1)) :
    appKey { a with agentVersion := v, displayName := d, token := t, dockerId := k, spanQueue := q, policies := ps } = appKey a := by
  simp [appKey, hashInput, supportedNames, hps]

/-- the policy names the PHP agent knows (agent/php_txn.c, axiom/nr_txn.c) -/
def agentPolicyVocabulary : List String :=
  ["record_sql", "allow_raw_exception_messages", "custom_events", "custom_parameters",
   "custom_instrumentation_editor", "message_parameters", "job_arguments", "attributes_include"]

/-- … are non-empty and none is a prefix of another, so `C04_appkey_iff_partial` applies to every pair of
descriptions built from them -/
theorem C04_policy_vocabulary_prefix_free :
    (agentPolicyVocabulary.all (fun x => x.toList ≠ [])) = true ∧
    (agentPolicyVocabulary.all (fun x => agentPolicyVocabulary.all (fun y => !(x.toList.isPrefixOf y.toList) || x == y))) = true := by
  decide

/-- **C04 (tie).**  The key has exactly these nine fields, `(*AppInfo).Key()` fills each from the description field the
model uses, `(*App).Key()` delegates, and the policy hash skips unsupported policies, sorts, joins with the empty
separator and hashes with SHA-256 — as regenerated from app.go / lasp.go. -/
theorem C04_appkey_tied :
    Gen.AppKey.fields = ["License:collector.LicenseKey", "Appname:string", "RedirectCollector:string", "HighSecurity:bool",
      "AgentLanguage:string", "AgentPolicies:string", "AgentHostname:string", "TraceObserverHost:string",
      "TraceObserverPort:uint16"] ∧
    Gen.AppKey.keyOf = ["License:info.License", "Appname:info.Appname", "RedirectCollector:info.RedirectCollector",
      "HighSecurity:info.HighSecurity", "AgentLanguage:info.AgentLanguage",
      "AgentPolicies:info.SupportedSecurityPolicies.getSupportedPoliciesHash()", "AgentHostname:info.Hostname",
      "TraceObserverHost:info.TraceObserverHost", "TraceObserverPort:info.TraceObserverPort"] ∧
    Gen.AppKey.appDelegates = true ∧ Gen.AppKey.hashSkipsUnsupported = true ∧
    Gen.AppKey.hashCollects = "policies=append(policies,name)" ∧ Gen.AppKey.hashSorts = true ∧
    Gen.AppKey.hashJoinSep = "\"\"" ∧ Gen.AppKey.hashFn = "sha256.New" := by
  decide

/-- `processTxnData` / `processSpanBatch` today: data is routed by run id only, an unknown id is dropped before anything else
happens; the transaction is decoded under a deferred `recover` (C10) -/
def reviewedProcessTxnData : List String := [
  "h, ok := p.harvests[d.ID]",
  "if !ok {",
  "return",
  "}",
  "h.App.LastActivity = time.Now(…)",
  "defer func(){if err := recover(…); err!=nil {; }}()",
  "d.Sample.AggregateInto(…)"
]
def reviewedProcessSpanBatch : List String := [
  "h, ok := p.harvests[d.id]",
  "if !ok {",
  "return",
  "}",
  "if h.TraceObserver!=nil {",
  "h.TraceObserver.QueueBatch(…)",
  "}",
  "else {",
  "}"
]

/-- **C04 (tie: routing by run id is the code's).** -/
theorem C04_routing_source_tied :
    Gen.Skeleton.processTxnData = reviewedProcessTxnData ∧ Gen.Skeleton.processSpanBatch = reviewedProcessSpanBatch := ⟨rfl, rfl⟩


/-! ## Ties to the current source: the functions transcribed by the model have not changed since they were reviewed (`Props/Reviewed.lean`) -/

/-- **C04 (tie).**  `doHarvest`: the request parameters of a harvest are built from the harvest event (run id) and the harvested application only. -/
theorem C04_doharvest_source_tied : Gen.Skeleton.doHarvest = Reviewed.doHarvest := rfl

/-- **C04 (tie).**  `harvestPayload`: the sender goroutine of one request: Execute, then - on failure only - the very container it sent goes back to the processor; nothing else touches or releases it. -/
theorem C04_harvest_payload_source_tied : Gen.Skeleton.harvestPayload = Reviewed.harvestPayload := rfl
