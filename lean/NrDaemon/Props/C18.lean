import NrDaemon.Model.Limiter
import NrDaemon.Gen.Limits
import NrDaemon.Gen.Skeleton
/-!
  C18 — outbound requests are limited without leaking capacity.
-/

/-- the invariant: tokens in the semaphore + requests inside the inner client = the configured maximum -/
def LInv (s : LState) : Prop := s.permits + s.running.length = s.max

theorem erase_length_of_mem (l : List Nat) (i : Nat) (h : l.contains i = true) : (l.erase i).length + 1 = l.length := by
  have hm : i ∈ l := by simpa using h
  rw [List.length_erase_of_mem hm]
  have : 0 < l.length := List.length_pos_of_mem hm
  omega

theorem LInv_step (s : LState) (e : LEvent) (h : LInv s) : LInv (s.step e) ∧ (s.step e).max = s.max := by
  unfold LInv at *
  unfold LState.step
  split
  · exact ⟨h, rfl⟩
  · next hen =>
    have hen : s.enabled e = true := by simpa using hen
    cases e with
    | arrive i => exact ⟨h, rfl⟩
    | acquire i =>
      simp only [LState.enabled, Bool.and_eq_true, decide_eq_true_eq] at hen
      refine ⟨?_, rfl⟩
      simp only [List.length_append, List.length_singleton]
      omega
    | timeout i => exact ⟨h, rfl⟩
    | finish i =>
      simp only [LState.enabled] at hen
      have := erase_length_of_mem s.running i hen
      refine ⟨?_, rfl⟩
      simp only; omega
    | panic i =>
      simp only [LState.enabled] at hen
      have := erase_length_of_mem s.running i hen
      refine ⟨?_, rfl⟩
      simp only; omega

/-- **C18 (invariant, all interleavings).**  After any sequence of arrivals, acquisitions, time-outs, normal and
panicking completions, `tokens + requests in flight = max`. -/
theorem C18_inv (max : Nat) (es : List LEvent) :
    LInv ((LState.init max).run es) ∧ ((LState.init max).run es).max = max := by
  unfold LState.run
  suffices h : ∀ s : LState, LInv s → s.max = max → LInv (es.foldl LState.step s) ∧ (es.foldl LState.step s).max = max from
    h _ (by simp [LInv, LState.init]) rfl
  induction es with
  | nil => intro s h hm; exact ⟨h, hm⟩
  | cons e es ih =>
    intro s h hm
    have := LInv_step s e h
    exact ih _ this.1 (this.2.trans hm)

/-- **C18 (bound).**  Never more than `max` requests are in flight. -/
theorem C18_bound (max : Nat) (es : List LEvent) : ((LState.init max).run es).running.length ≤ max := by
  have := C18_inv max es
  unfold LInv at this
  omega

/-- **C18 (no leak).**  Whenever nothing is in flight the full capacity is available again — after any number of
failures, panics and time-outs. -/
theorem C18_no_leak (max : Nat) (es : List LEvent) (hq : ((LState.init max).run es).running = []) :
    ((LState.init max).run es).permits = max := by
  have := C18_inv max es
  unfold LInv at this
  simp [hq] at this
  omega

/-- **C18 (time-out fails without touching the capacity).** -/
theorem C18_timeout_fails (s : LState) (i : Nat) (h : s.waiting.contains i = true) :
    (s.step (.timeout i)).permits = s.permits ∧ (s.step (.timeout i)).running = s.running ∧
    i ∈ (s.step (.timeout i)).failed := by
  have he : s.enabled (.timeout i) = true := h
  unfold LState.step
  simp only [he, Bool.not_true, Bool.false_eq_true, if_false]
  exact ⟨trivial, trivial, by simp⟩

/-- a request that cannot get a token can always time out: it never waits indefinitely -/
theorem C18_timeout_enabled (s : LState) (i : Nat) (h : s.waiting.contains i = true) :
    s.enabled (.timeout i) = true := h

/-- the configured maximum and the time-out (regenerated from limits.go) -/
theorem C18_constants : Gen.Limits.MaxOutboundConns = 100 ∧ Gen.Limits.HarvestTimeout = 45000000000 := by decide

/-- `limitClient.Execute` as it is in client.go today: take a token or time out; the token goes back in a deferred call (so
also when the inner client panics) and only on the path that took one — the transitions `acquire` / `finish` / `panic` /
`timeout` of the limiter machine -/
def reviewedLimitExecute : List String := [
  "if 0!=l.timeout {",
  "timer = time.After(…)",
  "}",
  "select {",
  "case <-l.semaphore:",
  "defer func(){l.semaphore <- true}()",
  "resp := l.orig.Execute(…)",
  "return resp",
  "case <-timer:",
  "return NewRPMResponseError(…)",
  "}"
]

/-- **C18 (tie: the limiter machine transcribes the code).** -/
theorem C18_execute_source_tied : Gen.Skeleton.limitExecute = reviewedLimitExecute := rfl
