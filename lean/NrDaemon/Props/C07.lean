import NrDaemon.Props.Reviewed
import NrDaemon.Gen.Skeleton
import NrDaemon.Lemmas.Metrics
import NrDaemon.Model.Rules
import NrDaemon.Props.Tied
import NrDaemon.Model.Regex
import NrDaemon.Lemmas.Regex
import NrDaemon.Model.Proc
import NrDaemon.Gen.Rules
import NrDaemon.Lemmas.Proc
/-!
  C07 — metric aggregation is order-independent and rename rules are applied faithfully.

  Exact integer arithmetic (DESIGN §4).  `mergeAdmitted` is `mergeMetric` without the capacity check;
  `C07_below_capacity` shows they coincide whenever the capacity limit does not refuse (the property's
  "refusals at the capacity limit aside").
-/

abbrev Contribution := MKey × Metric

def applyAll (t : MTable) (cs : List Contribution) : MTable :=
  cs.foldl (fun t c => t.mergeAdmitted c.1 c.2) t

def dataFor (k : MKey) (cs : List Contribution) : List MData := (cs.filter (·.1 == k)).map (·.2.d)

/-- **C07 (aggregate is commutative).** -/
theorem C07_aggregate_comm (a b : MData) : a.agg b = b.agg a := MData.agg_comm a b

/-- **C07 (aggregate is associative).** -/
theorem C07_aggregate_assoc (a b c : MData) : (a.agg b).agg c = a.agg (b.agg c) := MData.agg_assoc a b c

/-- **C07 (combination is independent of arrival order).** -/
theorem C07_combine_perm (l1 l2 : List MData) (p : l1.Perm l2) : combine l1 = combine l2 :=
  combineFrom_perm none l1 l2 p

/-- **C07 (combination is independent of grouping)**: combining two groups separately (two transactions, a
carried-over table and the current one, two merged tables) and then combining the results equals combining all. -/
theorem C07_combine_regroup (l1 l2 : List MData) :
    combine (l1 ++ l2) = match combine l1, combine l2 with
      | none, r => r
      | some a, none => some a
      | some a, some b => some (a.agg b) := by
  unfold combine
  rw [combineFrom_append]
  cases h1 : combineFrom none l1 with
  | none => rfl
  | some a =>
    rw [combineFrom_some_eq]
    cases h2 : combine l2 <;> simp_all [combine]

theorem lookup_applyAll (t : MTable) (cs : List Contribution) (k : MKey) :
    ((applyAll t cs).find k).map (·.d) = combineFrom ((t.find k).map (·.d)) (dataFor k cs) := by
  induction cs generalizing t with
  | nil => simp [applyAll, dataFor, combineFrom]
  | cons c cs ih =>
    have hstep : applyAll t (c :: cs) = applyAll (t.mergeAdmitted c.1 c.2) cs := rfl
    rw [hstep, ih, find_mergeAdmitted]
    by_cases hk : k = c.1
    · subst hk
      have hd : dataFor c.1 (c :: cs) = c.2.d :: dataFor c.1 cs := by simp [dataFor]
      rw [hd]
      cases hf : t.find c.1 with
      | none => simp [mergedValue, combineFrom, aggO]
      | some o => simp [mergedValue, combineFrom, aggO]
    · have hne : (c.1 == k) = false := by simpa using fun e => hk e.symm
      have hd : dataFor k (c :: cs) = dataFor k cs := by simp [dataFor, hne]
      simp [hk, hd]

/-- **C07 (table value).**  After any sequence of admitted contributions to an empty table, the data held for a
name and scope is the field-wise combination of all contributions received for it (and nothing is held for a
key that received none). -/
theorem C07_table_value (max : Nat) (cs : List Contribution) (k : MKey) :
    ((applyAll (MTable.new max) cs).find k).map (·.d) = combine (dataFor k cs) := by
  rw [lookup_applyAll]
  simp [MTable.new, MTable.find, combine]

/-- **C07 (table is order-independent).**  Any two arrival orders of the same multiset of contributions give the
same data for every name and scope. -/
theorem C07_table_perm (t : MTable) (cs1 cs2 : List Contribution) (p : cs1.Perm cs2) (k : MKey) :
    ((applyAll t cs1).find k).map (·.d) = ((applyAll t cs2).find k).map (·.d) := by
  rw [lookup_applyAll, lookup_applyAll]
  apply combineFrom_perm
  exact (p.filter _).map _

theorem applyAll_count_max (t : MTable) (cs : List Contribution) :
    (applyAll t cs).count ≤ t.count + cs.length ∧ (applyAll t cs).max = t.max := by
  induction cs generalizing t with
  | nil => simp [applyAll]
  | cons c cs ih =>
    have hstep : applyAll t (c :: cs) = applyAll (t.mergeAdmitted c.1 c.2) cs := rfl
    have h1 : (t.mergeAdmitted c.1 c.2).count ≤ t.count + 1 ∧ (t.mergeAdmitted c.1 c.2).max = t.max := by
      unfold MTable.mergeAdmitted; split <;> simp
    have := ih (t.mergeAdmitted c.1 c.2)
    rw [hstep]
    simp only [List.length_cons]
    omega

/-- **C07 (below the capacity nothing is refused).**  While the table has room for every contribution the real
insertion (`mergeMetric`, with its capacity check) coincides with plain insertion, so the theorems above
describe the code's result exactly. -/
theorem C07_below_capacity (t : MTable) (cs : List Contribution) (h : t.count + cs.length ≤ t.max) :
    cs.foldl (fun t c => t.mergeMetric c.1 c.2) t = applyAll t cs := by
  induction cs generalizing t with
  | nil => rfl
  | cons c cs ih =>
    simp only [List.foldl_cons, List.length_cons] at *
    have e : t.mergeMetric c.1 c.2 = t.mergeAdmitted c.1 c.2 :=
      mergeMetric_eq_admitted t c.1 c.2 (Or.inl (by omega))
    rw [e]
    have hc : (t.mergeAdmitted c.1 c.2).count ≤ t.count + 1 ∧ (t.mergeAdmitted c.1 c.2).max = t.max := by
      unfold MTable.mergeAdmitted; split <;> simp
    have := ih (t.mergeAdmitted c.1 c.2) (by omega)
    rw [this]; rfl

/-- forced contributions are never refused, whatever the fill level -/
theorem C07_forced_never_refused (t : MTable) (k : MKey) (d : MData) :
    t.addRaw k d true = t.mergeAdmitted k { forced := true, d := d } :=
  mergeMetric_eq_admitted t k _ (Or.inr (Or.inl rfl))

/-! ### rename rules at the table level -/

def renamed (rename : String → String) (order : List Contribution) : List Contribution :=
  order.map (fun p => ((rename p.1.1, p.1.2), p.2))

theorem applyRulesOrd_eq (t : MTable) (rename : String → String) (order : List Contribution) :
    t.applyRulesOrd rename order = applyAll { MTable.new t.max with failed := t.failed } (renamed rename order) := by
  unfold MTable.applyRulesOrd applyAll renamed
  rw [List.foldl_map]

/-- **C07 (renamed metrics are combined).**  After `ApplyRules`, the data reported under a name and scope is the
field-wise combination of all source metrics that the rules rename to it. -/
theorem C07_rename_combines (t : MTable) (rename : String → String) (order : List Contribution) (k : MKey) :
    ((t.applyRulesOrd rename order).find k).map (·.d) = combine (dataFor k (renamed rename order)) := by
  rw [applyRulesOrd_eq, lookup_applyAll]
  simp [MTable.new, MTable.find, combine]

/-- **C07 (renaming is independent of the map iteration order).** -/
theorem C07_rename_order_independent (t : MTable) (rename : String → String)
    (o1 o2 : List Contribution) (p : o1.Perm o2) (k : MKey) :
    ((t.applyRulesOrd rename o1).find k).map (·.d) = ((t.applyRulesOrd rename o2).find k).map (·.d) := by
  rw [C07_rename_combines, C07_rename_combines]
  apply combineFrom_perm
  exact ((p.map _).filter _).map _

/-- **C07 (no admitted metric is lost by renaming).**  Every metric of the source table is present, under its
new name and old scope, in the renamed table — whatever the fill level of the table. -/
theorem C07_rename_loses_nothing (t : MTable) (rename : String → String) (order : List Contribution)
    (p : Contribution) (hp : p ∈ order) :
    ((t.applyRulesOrd rename order).find (rename p.1.1, p.1.2)).isSome := by
  have h := C07_rename_combines t rename order (rename p.1.1, p.1.2)
  have hmem : p.2.d ∈ dataFor (rename p.1.1, p.1.2) (renamed rename order) := by
    unfold dataFor renamed
    simp only [List.mem_map, List.mem_filter]
    exact ⟨((rename p.1.1, p.1.2), p.2), ⟨⟨p, hp, rfl⟩, by simp⟩, rfl⟩
  cases hd : dataFor (rename p.1.1, p.1.2) (renamed rename order) with
  | nil => rw [hd] at hmem; cases hmem
  | cons d ds =>
    rw [hd] at h
    have : ∃ r, combine (d :: ds) = some r := by
      simpa [combine, combineFrom, aggO] using combineFrom_some d ds
    obtain ⟨r, hr⟩ := this
    rw [hr] at h
    cases hf : (t.applyRulesOrd rename order).find (rename p.1.1, p.1.2) with
    | none => rw [hf] at h; cases h
    | some _ => rfl

/-- the renamed table keeps the capacity and the attempt counter (C02: `ApplyRules` must carry it over) -/
theorem C07_rename_keeps_attempts (t : MTable) (rename : String → String) (order : List Contribution) :
    (t.applyRulesOrd rename order).failed = t.failed ∧ (t.applyRulesOrd rename order).max = t.max := by
  rw [applyRulesOrd_eq]
  constructor
  · generalize hq : renamed rename order = q
    have : ∀ (q : List Contribution) (u : MTable), (applyAll u q).failed = u.failed := by
      intro q
      induction q with
      | nil => intro u; rfl
      | cons c q ih =>
        intro u
        have hstep : applyAll u (c :: q) = applyAll (u.mergeAdmitted c.1 c.2) q := rfl
        rw [hstep, ih]
        unfold MTable.mergeAdmitted; split <;> rfl
    rw [this]
  · exact (applyAll_count_max _ _).2

/-! sanity tests (evaluated): a scoped/unscoped mix, two names renamed to one -/
#guard ((applyAll (MTable.new 10) [(("a", ""), ⟨false, ⟨1, 2, 3, 4, 5, 6⟩⟩), (("b", ""), ⟨false, ⟨1, 1, 1, 1, 9, 1⟩⟩)]).applyRules
          (fun _ => "z")).ms.map (fun p => (p.1, p.2.d.c, p.2.d.mn, p.2.d.mx)) == [(("z", ""), 2, 1, 9)]

/-! ## Rename rules: evaluation order, terminate_chain, each_segment, replace_all, ignore (`Model/Rules.lean`) -/

theorem mem_insertByOrder (r b : Rule) (l : List Rule) (hb : b ∈ insertByOrder r l) : b = r ∨ b ∈ l := by
  induction l with
  | nil => simp [insertByOrder] at hb; exact Or.inl hb
  | cons y ys ih =>
    simp only [insertByOrder] at hb
    split at hb
    · rcases List.mem_cons.mp hb with h | h
      · exact Or.inl h
      · exact Or.inr h
    · rcases List.mem_cons.mp hb with h | h
      · exact Or.inr (by rw [h]; exact List.mem_cons_self)
      · rcases ih h with h1 | h1
        · exact Or.inl h1
        · exact Or.inr (List.mem_cons_of_mem _ h1)

theorem insertByOrder_sorted (r : Rule) (l : List Rule) (h : l.Pairwise (fun a b => a.order ≤ b.order)) :
    (insertByOrder r l).Pairwise (fun a b => a.order ≤ b.order) := by
  induction l with
  | nil => simp [insertByOrder]
  | cons x xs ih =>
    simp only [insertByOrder]
    have hx := List.pairwise_cons.mp h
    split
    · rename_i hlt
      refine List.pairwise_cons.mpr ⟨?_, h⟩
      intro b hb
      rcases List.mem_cons.mp hb with rfl | hb
      · omega
      · have := hx.1 b hb; omega
    · rename_i hge
      refine List.pairwise_cons.mpr ⟨?_, ih hx.2⟩
      intro b hb
      rcases mem_insertByOrder r b xs hb with rfl | hb
      · omega
      · exact hx.1 b hb

/-- **C07 (rules are applied in evaluation order).**  The chain is evaluated over the rules sorted by `eval_order`. -/
theorem C07_rules_sorted (rs : List Rule) : (sortRules rs).Pairwise (fun a b => a.order ≤ b.order) := by
  unfold sortRules
  induction rs with
  | nil => simp
  | cons r rs ih => exact insertByOrder_sorted r _ ih

/-- **C07 (terminate_chain).**  A matching rule with `terminate_chain` ends the chain: its output is the result and no
later rule is applied, whatever the later rules are. -/
theorem C07_rules_terminate (r : Rule) (rest : List Rule) (s out : Str) (m : Bool)
    (h : applyRule r s = (.matched, out)) (ht : r.terminate = true) :
    applyChain (r :: rest) s m = (.matched, out) := by
  simp [applyChain, h, ht]

/-- a matching rule without `terminate_chain` hands its output to the next rule; the overall result is then "matched" -/
theorem C07_rules_continue (r : Rule) (rest : List Rule) (s out : Str) (m : Bool)
    (h : applyRule r s = (.matched, out)) (ht : r.terminate = false) :
    applyChain (r :: rest) s m = applyChain rest out true := by
  simp [applyChain, h, ht]

/-- a rule that does not match is skipped, also when it carries `terminate_chain` -/
theorem C07_rules_unmatched_skipped (r : Rule) (rest : List Rule) (s out : Str) (m : Bool)
    (h : applyRule r s = (.unmatched, out)) : applyChain (r :: rest) s m = applyChain rest out m := by
  simp [applyChain, h]

/-- **C07 (each_segment).**  An each-segment rule rewrites the first match in every `/`-separated segment and counts as
matched iff it matched in at least one segment — not just the last one. -/
theorem C07_each_segment (r : Rule) (s : Str) (hi : r.ignore = false) (ha : r.replaceAll = false) (he : r.eachSegment = true) :
    (applyRule r s).2 = joinSlash ((splitSlash s).map (fun seg => (replaceFirst r seg).2)) ∧
    ((applyRule r s).1 = .matched ↔ ∃ seg ∈ splitSlash s, (replaceFirst r seg).1 = .matched) := by
  simp only [applyRule, hi, ha, he, Bool.false_eq_true, if_false, if_true]
  refine ⟨by simp [List.map_map, Function.comp_def], ?_⟩
  constructor
  · intro h
    split at h
    · rename_i hany
      simp only [List.any_eq_true, List.mem_map] at hany
      obtain ⟨x, ⟨seg, hseg, rfl⟩, hx⟩ := hany
      exact ⟨seg, hseg, by simpa using hx⟩
    · cases h
  · intro ⟨seg, hseg, hm⟩
    have : ((splitSlash s).map (replaceFirst r)).any (·.1 == .matched) = true := by
      simp only [List.any_eq_true, List.mem_map]
      exact ⟨replaceFirst r seg, ⟨seg, hseg, rfl⟩, by simp [hm]⟩
    simp [this]

/-- **C07 (ignore rules).** -/
theorem C07_rules_ignore (r : Rule) (rest : List Rule) (s : Str) (m : Bool) (hi : r.ignore = true)
    (hm : (findMatch r.anchor r.lit s).isSome = true) : applyChain (r :: rest) s m = (.ignore, []) := by
  simp [applyChain, applyRule, hi, hm]

example : applyRules [{ order := 1, eachSegment := true, terminate := true, lit := ['a'], repl := ['x'] },
                      { order := 2, lit := ['x'], repl := ['y'] }] "a/b".toList = (.matched, "x/b".toList) := by decide
example : applyRules [{ order := 2, replaceAll := true, lit := ['a'], repl := ['a', 'a'] },
                      { order := 1, anchor := .pre, lit := ['b'], repl := [] }] "baca".toList = (.matched, "aacaa".toList) := by decide

/-- **C07 (tie: field-wise aggregation is the code's).**  `MData.agg` equals `metricData.aggregate` as translated from
metrics.go on this run, for all pairs of values (so the commutativity / associativity / permutation theorems above are about
the function the daemon runs). -/
theorem C07_aggregate_tied (d s : MData) : Gen.Decisions.aggregate d.toGen s.toGen = (d.agg s).toGen :=
  tied_aggregate d s

/-! ## The rule chain over regular expressions (`Model/Regex.lean`)

The same statements for rules whose expressions are regular expressions with groups and whose replacements use
back-references — the chain logic does not depend on what an expression is. -/

/-- **C07 (evaluation order, regex rules).** -/
theorem C07_rx_rules_sorted (rs : List RuleX) :
    (rs.foldr insertByOrderX []).Pairwise (fun a b => a.order ≤ b.order) := by
  have ins : ∀ (r : RuleX) (l : List RuleX), l.Pairwise (fun a b => a.order ≤ b.order) →
      (insertByOrderX r l).Pairwise (fun a b => a.order ≤ b.order) ∧ (∀ x ∈ insertByOrderX r l, x = r ∨ x ∈ l) := by
    intro r l
    induction l with
    | nil => intro _; simp [insertByOrderX]
    | cons x xs ih =>
      intro h
      have hx := List.pairwise_cons.mp h
      simp only [insertByOrderX]
      split
      · rename_i hlt
        refine ⟨List.pairwise_cons.mpr ⟨?_, h⟩, fun y hy => by simpa using hy⟩
        intro y hy
        rcases List.mem_cons.mp hy with rfl | hy
        · omega
        · have := hx.1 y hy; omega
      · rename_i hge
        obtain ⟨h1, h2⟩ := ih hx.2
        refine ⟨List.pairwise_cons.mpr ⟨?_, h1⟩, ?_⟩
        · intro y hy
          rcases h2 y hy with rfl | hy
          · omega
          · exact hx.1 y hy
        · intro y hy
          rcases List.mem_cons.mp hy with rfl | hy
          · exact Or.inr (by simp)
          · rcases h2 y hy with rfl | hy
            · exact Or.inl rfl
            · exact Or.inr (by simp [hy])
  induction rs with
  | nil => simp
  | cons r rs ih => exact (ins r _ ih).1

/-- **C07 (terminate_chain / continue / unmatched skipped / ignore, regex rules).** -/
theorem C07_rx_chain (r : RuleX) (rest : List RuleX) (s out : Str) (m : Bool) :
    (applyRuleX r s = (.matched, out) → r.terminate = true → applyChainX (r :: rest) s m = (.matched, out)) ∧
    (applyRuleX r s = (.matched, out) → r.terminate = false → applyChainX (r :: rest) s m = applyChainX rest out true) ∧
    (applyRuleX r s = (.unmatched, out) → applyChainX (r :: rest) s m = applyChainX rest out m) ∧
    (applyRuleX r s = (.ignore, out) → applyChainX (r :: rest) s m = (.ignore, [])) := by
  refine ⟨?_, ?_, ?_, ?_⟩ <;> intro h <;> simp [applyChainX, h] <;> intro ht <;> simp [ht]

/-- **C07 (each_segment, regex rules): matched iff ANY segment matched.** -/
theorem C07_rx_each_segment (r : RuleX) (s : Str) (hi : r.ignore = false) (ha : r.replaceAll = false) (he : r.eachSegment = true) :
    (applyRuleX r s).2 = joinSlash ((splitSlash s).map (fun seg => (replaceFirstX r seg).2)) ∧
    ((applyRuleX r s).1 = .matched ↔ ∃ seg ∈ splitSlash s, (replaceFirstX r seg).1 = .matched) := by
  simp only [applyRuleX, hi, ha, he, Bool.false_eq_true, if_false, if_true]
  refine ⟨by simp [List.map_map, Function.comp_def], ?_⟩
  constructor
  · intro h
    split at h
    · rename_i hany
      simp only [List.any_eq_true, List.mem_map] at hany
      obtain ⟨x, ⟨seg, hseg, rfl⟩, hx⟩ := hany
      exact ⟨seg, hseg, by simpa using hx⟩
    · cases h
  · intro ⟨seg, hseg, hm⟩
    have : ((splitSlash s).map (replaceFirstX r)).any (·.1 == .matched) = true := by
      simp only [List.any_eq_true, List.mem_map]
      exact ⟨replaceFirstX r seg, ⟨seg, hseg, rfl⟩, by simp [hm]⟩
    simp [this]

/-- **C07 (a rule that cannot be transformed is left out, the others keep their order).** -/
theorem C07_rx_ambiguous_dropped (rs : List RuleX) (s : Str) :
    applyRulesX rs s = applyRulesX (rs.filter (fun r => !ambiguousReplacement r.repl)) s := by
  simp [applyRulesX, List.filter_filter]

/-- back-references: `\\1` becomes `${1}`, `\\\\1` makes the rule ambiguous; worked instances of both models agreeing on a
literal expression, and of a back-reference (`(a)(b)` → `\\2\\1`) -/
example : transformReplacement 10 ['x', '\\', '1', 'y'] = ['x', '$', '{', '1', '}', 'y'] := by decide
example : ambiguousReplacement ['x', '\\', '\\', '1'] = true ∧ ambiguousReplacement ['x', '\\', '1'] = false := by decide
-- (evaluation, not proof: the kernel does not reduce `Array.extract`)
#guard (applyRulesX [{ order := 1, re := .seq (.grp 1 (.chr 'a')) (.grp 2 (.chr 'b')), repl := ['\\', '2', '\\', '1'] }] ['x', 'a', 'b', 'y']).2
    == ['x', 'b', 'a', 'y']

/-- **C07 (a name no rule matches is reported unchanged; regex rules).**  If the chain reports "unmatched" the name that
comes out is the name that went in — for every rule list, every combination of flags (each_segment splits and re-joins the
name losslessly) and every name. -/
theorem C07_rx_unmatched_unchanged (rs : List RuleX) (s out : Str) (h : applyRulesX rs s = (.unmatched, out)) : out = s :=
  applyChainX_unmatched _ s out h

/-- **C07 (a match lies inside the name).**  The leftmost match the model finds starts at or after the position the search
started from, ends no earlier than it starts and no later than the name does — so cutting the name into "before, match,
after" (`replaceFirst`, `ReplaceAllString`) is well defined. -/
theorem C07_rx_match_within_input (re : Re) (inp : Array Char) (from_ s e : Nat) (c : Caps)
    (h : re.find inp from_ = some (s, e, c)) : from_ ≤ s ∧ s ≤ e ∧ e ≤ inp.size :=
  Re.find_bounds re inp from_ s e c h

/-- the contributions a transaction makes: every metric unscoped, and the scoped ones once more under the transaction's name -/
def txnContribs (txnName : String) (ms : List TxnMetric) : List Contribution :=
  ms.flatMap (fun x => ((x.name, ""), { forced := x.forced, d := x.d }) ::
    (if x.isScoped then [((x.name, txnName), ({ forced := x.forced, d := x.d } : Metric))] else []))

theorem mergeAdmitted_count_max (t : MTable) (k : MKey) (m : Metric) :
    (t.mergeAdmitted k m).count ≤ t.count + 1 ∧ (t.mergeAdmitted k m).max = t.max := by
  unfold MTable.mergeAdmitted
  split <;> simp

/-- **C07 (a scoped contribution is also recorded unscoped).**  What `aggregateMetrics` does with the metrics of a
transaction (while there is room: refusals at the capacity limit aside) is exactly: admit every metric as an unscoped
contribution and every scoped one once more under the transaction's name, in order — so `C07_table_value`,
`C07_table_perm`, `C07_combine_regroup` apply to the tables transactions build, for every transaction name and metric
list. -/
theorem C07_scoped_also_unscoped (txnName : String) (ms : List TxnMetric) (t : MTable)
    (hroom : t.count + 2 * ms.length ≤ t.max) :
    ms.foldl (fun (m : MTable) (x : TxnMetric) =>
      let m := m.addRaw (x.name, "") x.d x.forced
      if x.isScoped then m.addRaw (x.name, txnName) x.d x.forced else m) t = applyAll t (txnContribs txnName ms) := by
  induction ms generalizing t with
  | nil => rfl
  | cons x xs ih =>
    simp only [List.foldl_cons, txnContribs, List.flatMap_cons, List.length_cons] at *
    have h1 : t.addRaw (x.name, "") x.d x.forced = t.mergeAdmitted (x.name, "") { forced := x.forced, d := x.d } := by
      unfold MTable.addRaw
      exact mergeMetric_eq_admitted t _ _ (Or.inl (by omega))
    obtain ⟨hc1, hm1⟩ := mergeAdmitted_count_max t (x.name, "") { forced := x.forced, d := x.d }
    by_cases hs : x.isScoped = true
    · simp only [hs, if_true]
      have h2 : (t.mergeAdmitted (x.name, "") { forced := x.forced, d := x.d }).addRaw (x.name, txnName) x.d x.forced =
          (t.mergeAdmitted (x.name, "") { forced := x.forced, d := x.d }).mergeAdmitted (x.name, txnName) { forced := x.forced, d := x.d } := by
        unfold MTable.addRaw
        exact mergeMetric_eq_admitted _ _ _ (Or.inl (by omega))
      obtain ⟨hc2, hm2⟩ := mergeAdmitted_count_max (t.mergeAdmitted (x.name, "") { forced := x.forced, d := x.d }) (x.name, txnName) { forced := x.forced, d := x.d }
      rw [h1, h2, ih _ (by omega)]
      simp [applyAll]
    · have hs' : x.isScoped = false := by simpa using hs
      simp only [hs', Bool.false_eq_true, if_false]
      rw [h1, ih _ (by omega)]
      simp [applyAll]

/-- **C07 (tie: the shape of metric_rules.go).**  `MetricRule.Apply` tests ignore, then replace_all, then each_segment
(else plain replace-first) — the order of `applyRule` / `applyRuleX`; `MetricRules.Apply` returns on ignore, remembers a
match and breaks on terminate_chain; rules are sorted by `eval_order`, compiled as `(?i)` + expression, and back-references
are transformed with the two expressions the model transcribes (`\\\\N` ambiguous, `\\N` → `${N}`). -/
theorem C07_rules_source_tied :
    Gen.Rules.flagOrder = ["r.Ignore", "r.ReplaceAll", "r.EachSegment"] ∧
    Gen.Rules.chain = ["RuleResultIgnore==res=>return", "RuleResultMatched==res=>break", "rule.Terminate=>break", "matched=>return"] ∧
    Gen.Rules.compileArg = "\"(?i)\"+r.RawExpr" ∧
    Gen.Rules.less = "rules[i].Order<rules[j].Order" ∧
    Gen.Rules.ambiguous = "regexp.MustCompile(`\\\\\\\\([0-9]+)`)" ∧
    Gen.Rules.backref = "regexp.MustCompile(`\\\\([0-9]+)`)" ∧
    Gen.Rules.backrefReplacement = "\"$${${1}}\"" := by decide

/-! ### Carry-over and rename rules (processor level) -/

/-- **C07 (a carried-over metric table goes back un-renamed).**  When the delivery of a metric payload fails, what is merged
into the next harvest is the table the rules were applied TO, not the table they produced: the rules meet every
contribution exactly once, at the harvest that finally sends it, so the reported name does not depend on carry-overs
(the defect repaired by `fix:` a3f8a47 was exactly the other choice). -/
theorem C07_handback_is_unrenamed (h : HarvestM) (sent orig : MTable) (touched : Bool) :
    (failedHarvest h (.metrics sent touched orig) .metrics).metrics =
      MTable.mergeFailed Gen.Limits.FailedMetricAttemptsLimit h.metrics orig := rfl

theorem txnPayloads_cat (split : Bool) (r : Res) : ∀ x ∈ txnPayloads split r, x.1 = Cat.txnEv := by
  intro x hx
  unfold txnPayloads at hx
  split at hx
  · simp only [List.mem_cons, List.mem_nil_iff, or_false] at hx
    rcases hx with h | h <;> rw [h]
  · simp only [List.mem_singleton] at hx
    rw [hx]

/-- the payload of a harvest is the rules' image of the harvest's own table, and that table travels with it -/
theorem C07_payload_carries_its_source (s : PState) (runId : String) (run : RunM) (app : AppM) (cfg : RunCfg) (a : HArgs) :
    ∀ r ∈ (harvestAllPart s runId run app cfg a).2, r.cat = Cat.metrics →
      r.payload = .metrics (applyRulesM (createFinalMetrics run.h).metrics a.rules) (createFinalMetrics run.h).touched
                           (createFinalMetrics run.h).metrics := by
  intro r hr hc
  unfold harvestAllPart at hr
  simp only [] at hr
  have hm := (considerMany_from _ _ _ r hr).2
  simp only [List.mem_append, List.mem_cons, Prod.mk.injEq, List.mem_nil_iff, or_false] at hm
  rw [hc] at hm
  rcases hm with ((h | h | h | h | h | h) | h) | h | h | h
  · exact h.2
  all_goals first
    | (exact absurd h.1 (by decide))
    | (have := txnPayloads_cat _ _ _ h; simp at this)


/-! ## Ties to the current source: the functions transcribed by the model have not changed since they were reviewed (`Props/Reviewed.lean`) -/

/-- **C07 (tie).**  `applyRules`: rules are applied to every name; the renamed table remembers its source. -/
theorem C07_apply_rules_source_tied : Gen.Skeleton.applyRules = Reviewed.applyRules := rfl

/-- **C07 (tie).**  `metricsFailedHarvest`: the un-renamed table is handed back. -/
theorem C07_failed_harvest_source_tied : Gen.Skeleton.metricsFailedHarvest = Reviewed.metricsFailedHarvest := rfl

/-! ### Empty matches -/

/-- **C07 (an empty leftmost match is a match).**  A rule (without `replace_all`, not an ignore rule) whose expression matches the
empty string at some position — an anchor alone, an optional group — is *applied*: `replaceFirst` reports a match (so
`terminate_chain` is honoured) and inserts the replacement there. -/
theorem C07_rx_empty_match_is_a_match (r : RuleX) (s : Str) (a : Nat) (c : Caps)
    (h : r.re.find s.toArray 0 = some (a, a, c)) :
    replaceFirstX r s = (.matched, s.take a ++ reReplaceAll r.re (s.toArray.extract a a) r.tmpl ++ s.drop a) := by
  simp [replaceFirstX, h]

/-- … whereas an ignore rule needs a non-empty match (`"" != FindString(s)`) -/
theorem C07_rx_ignore_needs_nonempty_match (r : RuleX) (s : Str) (a : Nat) (c : Caps) (hi : r.ignore = true)
    (h : r.re.find s.toArray 0 = some (a, a, c)) : applyRuleX r s = (.unmatched, s) := by
  simp [applyRuleX, hi, h]
