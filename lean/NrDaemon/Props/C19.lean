import NrDaemon.Model.Config
import NrDaemon.Gen.Limits
/-!
  C19 — settings resolve as command line over file over default, for all syntaxes.

  The model makes the structure explicit: an argument vector *denotes* a list of typed assignments
  (`flagAssign`, independent of the configuration assigned to; `--define` goes through the file lexer), a file text
  denotes a list of typed assignments (`textAssign`), and `configure` applies flags, then file, then flags again.
-/

/-- the value a list of assignments gives a field: the last assignment to it, if any -/
def lastVal (as : Assign) (f : Field) : Option CBytes := ((as.filter (·.1 == f)).getLast?).map (·.2)

theorem get_set (c : Cfg) (f g : Field) (v : CBytes) : (c.set f v).get g = if g = f then v else c.get g := by
  unfold Cfg.get Cfg.set
  by_cases h : g = f
  · subst h; simp [List.find?]
  · have h1 : ((f, v).1 == g) = false := by simpa using fun e => h e.symm
    simp only [List.find?, h1, h, if_false]
    congr 2
    induction c with
    | nil => rfl
    | cons p ps ih =>
      simp only [List.filter]
      by_cases hp : p.1 = f
      · have : (p.1 != f) = false := by simp [hp]
        have hg : (p.1 == g) = false := by simpa [hp] using fun e => h e.symm
        simp only [this, List.find?, hg]
        exact ih
      · have : (p.1 != f) = true := by simpa using hp
        simp only [this, List.find?]
        cases (p.1 == g) <;> simp [ih]

theorem applyAssign_get (as : Assign) (c : Cfg) (f : Field) :
    (applyAssign as c).get f = (lastVal as f).getD (c.get f) := by
  induction as generalizing c with
  | nil => simp [applyAssign, lastVal]
  | cons a as ih =>
    have hstep : applyAssign (a :: as) c = applyAssign as (c.set a.1 a.2) := rfl
    rw [hstep, ih, get_set]
    unfold lastVal
    by_cases ha : a.1 = f
    · have h1 : (a.1 == f) = true := by simp [ha]
      simp only [List.filter, h1]
      cases hl : (as.filter (·.1 == f)) with
      | nil => simp [ha]
      | cons x xs =>
        cases hq : (x :: xs).getLast? with
        | none => simp at hq
        | some y => simp [hq]
    · have h1 : (a.1 == f) = false := by simpa using ha
      have h2 : ¬ f = a.1 := fun e => ha e.symm
      simp only [List.filter, h1, h2, if_false]

/-- **C19 (precedence).**  When the new-style resolution succeeds, every setting other than the listen address has
the value of the last command-line assignment to it (in ANY spelling: `--flag value`, `--flag=value`, `-flag …`,
`--define key=value`), if the command line assigns it at all; otherwise the value of the last assignment in the
configuration file, if the file assigns it; otherwise the built-in default. -/
theorem C19_precedence (args : List String) (file : CBytes → Option CBytes) (sock : CBytes) (f : Field)
    (hf : f ≠ .addr)
    (h1 : (flagAssign daemonFlags (args.length + 1) args).2 = true)
    (text : CBytes)
    (hfile : parseConfigFile file (flagParse daemonFlags (args.length + 1) args defaultCfg).1
              = (applyAssign (textAssign text).1 (flagParse daemonFlags (args.length + 1) args defaultCfg).1, true)) :
    let A := (flagAssign daemonFlags (args.length + 1) args).1
    let F := (textAssign text).1
    (configure args file sock).ok = true ∧ (configure args file sock).legacy = false ∧
    (configure args file sock).cfg.get f =
      match lastVal A f with
      | some v => v
      | none => match lastVal F f with
        | some v => v
        | none => defaultCfg.get f := by
  simp only
  unfold configure
  simp only [flagParse, h1, Bool.not_true, Bool.false_eq_true, if_false] at hfile ⊢
  rw [hfile]
  simp only [Bool.not_true, Bool.false_eq_true, if_false]
  refine ⟨trivial, trivial, ?_⟩
  -- the address rule only touches the address
  have haddr : ∀ c : Cfg, (addressRule c sock).1.get f = c.get f := by
    intro c
    unfold addressRule
    simp only
    split
    · rw [get_set]; simp [hf]
    · split
      · rfl
      · split
        · rw [get_set]; simp [hf]
        · rfl
  rw [haddr, applyAssign_get, applyAssign_get, applyAssign_get]
  cases lastVal (flagAssign daemonFlags (args.length + 1) args).1 f with
  | some v => rfl
  | none =>
    simp only [Option.getD_none]
    cases lastVal (textAssign text).1 f <;> rfl

/-- **C19 (listen address).**  The listen address is taken from `--address` (or the file's `address`), else from the
port setting, else the platform default; giving both port and address yields a warning and the address wins. -/
theorem C19_listen_address (c : Cfg) (sock : CBytes) :
    let r := addressRule c sock
    (c.get .addr ≠ [] → r.1.get .addr = c.get .addr ∧ (r.2 = true ↔ c.get .port ≠ [])) ∧
    (c.get .addr = [] → c.get .port ≠ [] → r.1.get .addr = c.get .port ∧ r.2 = false) ∧
    (c.get .addr = [] → c.get .port = [] → r.1.get .addr = sock ∧ r.2 = false) := by
  simp only
  unfold addressRule
  refine ⟨?_, ?_, ?_⟩
  · intro ha
    have : (c.get .addr).isEmpty = false := by cases h : c.get .addr <;> simp_all
    by_cases hp : (c.get .port).isEmpty
    · have hp' : c.get .port = [] := by simpa using hp
      simp [this, hp, hp']
    · have hp' : c.get .port ≠ [] := by simpa using hp
      simp [this, hp, hp']
  · intro ha hp
    have h1 : (c.get .addr).isEmpty = true := by simp [ha]
    have h2 : (c.get .port).isEmpty = false := by cases h : c.get .port <;> simp_all
    simp [h1, h2, get_set]
  · intro ha hp
    simp [ha, hp, get_set]

/-- **C19 (unknown keys are ignored, malformed values are errors).** -/
theorem C19_unknown_ignored (kw v : CBytes) (rest : List (CBytes × CBytes))
    (h : fileKeyword.find? (·.1 == str kw) = none) : fileAssign ((kw, v) :: rest) = fileAssign rest := by
  simp [fileAssign, h]

theorem C19_malformed_error (kw v : CBytes) (rest : List (CBytes × CBytes)) (f : Field) (name : String)
    (h : fileKeyword.find? (·.1 == str kw) = some (name, f)) (hv : convert f.kind true v = none) :
    (fileAssign ((kw, v) :: rest)).2 = false := by
  simp [fileAssign, h, hv]

/-- **C19 (the lexer is total).**  `lexAll` is a total function of the byte string (Lean's termination check is the
proof that it neither loops nor gets stuck); it always returns one of the two outcomes. -/
theorem C19_lexer_total (input : CBytes) : (∃ as, lexAll input = .ok as) ∨ (∃ as, lexAll input = .err as) := by
  cases h : lexAll input with
  | ok as => exact Or.inl ⟨as, rfl⟩
  | err as => exact Or.inr ⟨as, rfl⟩

/-! sanity tests (evaluated): the three sources, one setting each way -/
#guard ((configure ["--pidfile=/cmd", "-c", "F"] (fun p => if p == "F".toUTF8.toList then some "pidfile = /file\nlogfile='/f.log'\n".toUTF8.toList else none) "@s".toUTF8.toList).cfg.get .pidfile) == "/cmd".toUTF8.toList
#guard ((configure ["--pidfile=/cmd", "-c", "F"] (fun p => if p == "F".toUTF8.toList then some "pidfile = /file\nlogfile='/f.log'\n".toUTF8.toList else none) "@s".toUTF8.toList).cfg.get .logfile) == "/f.log".toUTF8.toList
#guard ((configure ["--define", "port=9"] (fun _ => none) "@s".toUTF8.toList).cfg.get .addr) == "9".toUTF8.toList
#guard (flagAssign daemonFlags 3 ["--pidfile", "/x"]).1 == (flagAssign daemonFlags 3 ["-pidfile=/x"]).1
#guard (flagAssign daemonFlags 3 ["--pidfile", "/x"]).1 == (flagAssign daemonFlags 3 ["--define", "pidfile = '/x'"]).1

/-- the default of `app_timeout` in the model is `limits.DefaultAppTimeout` (regenerated) -/
theorem C19_app_timeout_default_tied : (DefaultAppTimeoutNs : Nat) = Gen.Limits.DefaultAppTimeout := by decide

/-- `app_timeout`: a bare number is milliseconds, units are those of `time.ParseDuration`, an empty or malformed value is an
error (evaluated instances of the model the engine compares with the real `Timeout.UnmarshalText`) -/
def timeoutExamplesOk : Bool :=
  parseTimeout "30".toUTF8.toList == some 30000000 && parseTimeout "45s".toUTF8.toList == some 45000000000 &&
  parseTimeout "1h30m".toUTF8.toList == some 5400000000000 && parseTimeout "".toUTF8.toList == none &&
  parseTimeout "5x".toUTF8.toList == none && parseTimeout "-5s".toUTF8.toList == some (-5000000000)
#guard timeoutExamplesOk

/-! ## Accepted time-outs fit a `time.Duration` -/

theorem parseGroups_le (fuel acc : Nat) (cs : List Char) (d : Nat) (h : parseGroups fuel acc cs = some d) : d ≤ 2 ^ 63 := by
  induction fuel generalizing acc cs with
  | zero => simp [parseGroups] at h
  | succ f ih =>
    simp only [parseGroups] at h
    split at h
    · simp at h
    · split at h
      · simp at h
      · split at h
        · simp at h
        · split at h
          · simp at h
          · split at h
            · simp only [Option.some.injEq] at h
              subst h
              omega
            · exact ih _ _ h

theorem finishTimeout_range (neg : Bool) (body : List Char) (n : Int) (h : finishTimeout neg body = some n) :
    -(2 ^ 63 : Int) ≤ n ∧ n ≤ 2 ^ 63 - 1 := by
  unfold finishTimeout at h
  split at h
  · simp only [Option.some.injEq] at h
    subst h
    constructor <;> decide
  · split at h
    · simp at h
    · next d hd =>
      have hle := parseGroups_le _ _ _ _ hd
      split at h
      · simp only [Option.some.injEq] at h
        subst h
        constructor <;> omega
      · split at h
        · simp at h
        · simp only [Option.some.injEq] at h
          subst h
          constructor <;> omega

/-- **C19 (an accepted `app_timeout` fits a Duration).**  Whatever text is given — bare numbers of any length (milliseconds),
several `<number><unit>` groups, a sign — if the value is accepted at all, the stored number of nanoseconds lies within the
range of a signed 64-bit integer: overflow is refused, never wrapped around. -/
theorem C19_timeout_fits_duration (v : CBytes) (n : Int) (h : parseTimeout v = some n) :
    -(2 ^ 63 : Int) ≤ n ∧ n ≤ 2 ^ 63 - 1 := by
  unfold parseTimeout at h
  simp only [] at h
  split at h <;> exact finishTimeout_range _ _ n h
