import NrDaemon.Props.Reviewed
import NrDaemon.Gen.Skeleton
import NrDaemon.Model.Json
/-!
  C08 — every outbound payload is well-formed for its endpoint.

  Part 1 (fully proved, for ALL byte strings): the output of the hand-written string encoder is a JSON string token.
  Part 2: each hand-assembling builder produces exactly the rendering of a JSON tree of the documented shape whose string
  leaves are encoder outputs, whose number leaves are decimal integers and whose remaining leaves are the agent's
  pre-encoded fragments; a non-finite metric value makes the metric payload fail.
  That the rendering of such a tree is valid JSON whenever the fragments are is the standard fact about JSON; it is
  validated differentially (encoding/json.Valid on every payload of the correspondence run), not re-proved here.
-/

def isHexByte (b : UInt8) : Bool := (0x30 ≤ b && b ≤ 0x39) || (0x61 ≤ b && b ≤ 0x66) || (0x41 ≤ b && b ≤ 0x46)

def simpleEsc (c : UInt8) : Bool :=
  c == 0x22 || c == 0x5C || c == 0x2F || c == 0x62 || c == 0x66 || c == 0x6E || c == 0x72 || c == 0x74

def hex4 (l : JBytes) : Bool := decide (4 ≤ l.length) && (l.take 4).all isHexByte

/-- RFC 8259 string body (between the quotes): unescaped bytes ≥ 0x20 other than `"` and `\`, two-character escapes,
and `\uXXXX` -/
def strBodyOk : JBytes → Bool
  | [] => true
  | b :: rest =>
    if b == 0x5C then
      match rest with
      | [] => false
      | c :: rest' =>
        if c == 0x75 then hex4 rest' && strBodyOk (rest'.drop 4)
        else simpleEsc c && strBodyOk rest'
    else (0x20 ≤ b && b != 0x22) && strBodyOk rest
termination_by l => l.length
decreasing_by
  all_goals simp_wf
  all_goals (try simp only [List.length_drop]); omega

theorem strBody_plain (b : UInt8) (t : JBytes) (h1 : 0x20 ≤ b) (h2 : b ≠ 0x22) (h3 : b ≠ 0x5C) :
    strBodyOk (b :: t) = strBodyOk t := by
  have e3 : (b == 0x5C) = false := by simpa using h3
  have e2 : (b != 0x22) = true := by simpa using h2
  rw [strBodyOk.eq_def]
  simp [e3, e2, h1]

theorem strBody_esc2 (c : UInt8) (t : JBytes) (hc : simpleEsc c = true) : strBodyOk (0x5C :: c :: t) = strBodyOk t := by
  have hne : (c == 0x75) = false := by
    cases h : c == 0x75 with
    | false => rfl
    | true =>
      have : c = 0x75 := by simpa using h
      subst this
      simp [simpleEsc] at hc
  rw [strBodyOk.eq_def]
  simp [hne, hc]

theorem strBody_escu (h1 h2 h3 h4 : UInt8) (t : JBytes)
    (e1 : isHexByte h1 = true) (e2 : isHexByte h2 = true) (e3 : isHexByte h3 = true) (e4 : isHexByte h4 = true) :
    strBodyOk (0x5C :: 0x75 :: h1 :: h2 :: h3 :: h4 :: t) = strBodyOk t := by
  rw [strBodyOk.eq_def]
  simp [hex4, e1, e2, e3, e4]

theorem strBody_high (l t : JBytes) (h : ∀ b ∈ l, (0x80 : UInt8) ≤ b) : strBodyOk (l ++ t) = strBodyOk t := by
  induction l with
  | nil => rfl
  | cons b l ih =>
    have hb := h b (by simp)
    have h20 : (0x20 : UInt8) ≤ b := UInt8.le_trans (by decide) hb
    have h22 : b ≠ 0x22 := by intro e; subst e; exact absurd hb (by decide)
    have h5c : b ≠ 0x5C := by intro e; subst e; exact absurd hb (by decide)
    rw [List.cons_append, strBody_plain b _ h20 h22 h5c]
    exact ih (fun x hx => h x (by simp [hx]))

theorem hexDigitLower_isHex (n : Nat) (h : n < 16) : isHexByte (hexDigitLower n) = true := by
  have : n = 0 ∨ n = 1 ∨ n = 2 ∨ n = 3 ∨ n = 4 ∨ n = 5 ∨ n = 6 ∨ n = 7 ∨ n = 8 ∨ n = 9 ∨ n = 10 ∨ n = 11 ∨ n = 12 ∨ n = 13 ∨
      n = 14 ∨ n = 15 := by omega
  rcases this with h | h | h | h | h | h | h | h | h | h | h | h | h | h | h | h <;> subst h <;> decide

theorem cont_high (b : UInt8) (h : cont b = true) : (0x80 : UInt8) ≤ b := by
  simp only [cont, Bool.and_eq_true, decide_eq_true_eq] at h
  exact h.1

/-- the bytes of a valid multi-byte sequence are all ≥ 0x80 -/
theorem utf8Len_high (b : UInt8) (rest : JBytes) (hb : ¬ b < 0x80) (n : Nat) (hn : utf8Len (b :: rest) = n) :
    ∀ x ∈ (b :: rest).take n, (0x80 : UInt8) ≤ x := by
  have hb80 : (0x80 : UInt8) ≤ b := by simpa [UInt8.not_lt] using hb
  intro x hx
  match rest, hn with
  | [], hn => simp [utf8Len] at hn; subst hn; simp at hx
  | [b1], hn =>
    simp only [utf8Len] at hn
    split at hn
    · split at hn
      · next hc => subst hn; simp at hx; rcases hx with rfl | rfl; exact hb80; exact cont_high _ hc
      · subst hn; simp at hx
    · subst hn; simp at hx
  | [b1, b2], hn =>
    simp only [utf8Len] at hn
    split at hn
    · split at hn
      · next hc => subst hn; simp at hx; rcases hx with rfl | rfl; exact hb80; exact cont_high _ hc
      · subst hn; simp at hx
    · split at hn
      · next h3 =>
        subst hn
        simp only [Bool.and_eq_true] at h3
        have hc2 := cont_high _ h3.2
        have hc1 : (0x80 : UInt8) ≤ b1 := by
          rcases Bool.or_eq_true _ _ |>.mp h3.1 with h | h
          · rcases Bool.or_eq_true _ _ |>.mp h with h | h
            · rcases Bool.or_eq_true _ _ |>.mp h with h | h
              · simp only [Bool.and_eq_true, decide_eq_true_eq] at h
                exact UInt8.le_trans (by decide) h.1.2
              · simp only [Bool.and_eq_true] at h; exact cont_high _ h.2
            · simp only [Bool.and_eq_true, decide_eq_true_eq] at h; exact h.1.2
          · simp only [Bool.and_eq_true] at h; exact cont_high _ h.2
        simp at hx
        rcases hx with rfl | rfl | rfl
        · exact hb80
        · exact hc1
        · exact hc2
      · subst hn; simp at hx
  | b1 :: b2 :: b3 :: tl, hn =>
    simp only [utf8Len] at hn
    split at hn
    · split at hn
      · next hc => subst hn; simp at hx; rcases hx with rfl | rfl; exact hb80; exact cont_high _ hc
      · subst hn; simp at hx
    · split at hn
      · next h3 =>
        subst hn
        simp only [Bool.and_eq_true] at h3
        have hc2 := cont_high _ h3.2
        have hc1 : (0x80 : UInt8) ≤ b1 := by
          rcases Bool.or_eq_true _ _ |>.mp h3.1 with h | h
          · rcases Bool.or_eq_true _ _ |>.mp h with h | h
            · rcases Bool.or_eq_true _ _ |>.mp h with h | h
              · simp only [Bool.and_eq_true, decide_eq_true_eq] at h
                exact UInt8.le_trans (by decide) h.1.2
              · simp only [Bool.and_eq_true] at h; exact cont_high _ h.2
            · simp only [Bool.and_eq_true, decide_eq_true_eq] at h; exact h.1.2
          · simp only [Bool.and_eq_true] at h; exact cont_high _ h.2
        simp at hx
        rcases hx with rfl | rfl | rfl
        · exact hb80
        · exact hc1
        · exact hc2
      · split at hn
        · next h4 =>
          subst hn
          simp only [Bool.and_eq_true] at h4
          have hc3 := cont_high _ h4.2
          have hc2 := cont_high _ h4.1.2
          have hc1 : (0x80 : UInt8) ≤ b1 := by
            rcases Bool.or_eq_true _ _ |>.mp h4.1.1 with h | h
            · rcases Bool.or_eq_true _ _ |>.mp h with h | h
              · simp only [Bool.and_eq_true, decide_eq_true_eq] at h
                exact UInt8.le_trans (by decide) h.1.2
              · simp only [Bool.and_eq_true] at h; exact cont_high _ h.2
            · simp only [Bool.and_eq_true, decide_eq_true_eq] at h; exact h.1.2
          simp at hx
          rcases hx with rfl | rfl | rfl | rfl
          · exact hb80
          · exact hc1
          · exact hc2
          · exact hc3
        · subst hn; simp at hx

theorem escapeBody_ok (fuel : Nat) (s : JBytes) : strBodyOk (escapeBody fuel s) = true := by
  induction fuel generalizing s with
  | zero => simp [escapeBody, strBodyOk]
  | succ fuel ih =>
    cases s with
    | nil => simp [escapeBody, strBodyOk]
    | cons b rest =>
      simp only [escapeBody]
      split
      · next hlt =>
        split
        · next hsafe =>
          simp only [Bool.and_eq_true, bne_iff_ne, ne_eq, decide_eq_true_eq] at hsafe
          rw [strBody_plain b _ hsafe.1.1.1.1.1 hsafe.1.1.1.2 hsafe.1.1.1.1.2]
          exact ih rest
        · split
          · next hq =>
            have : simpleEsc b = true := by
              rcases Bool.or_eq_true _ _ |>.mp hq with h | h
              · have : b = 0x5C := by simpa using h
                subst this; decide
              · have : b = 0x22 := by simpa using h
                subst this; decide
            rw [strBody_esc2 b _ this]; exact ih rest
          · split
            · rw [strBody_esc2 0x6E _ (by decide)]; exact ih rest
            · split
              · rw [strBody_esc2 0x72 _ (by decide)]; exact ih rest
              · split
                · rw [strBody_esc2 0x74 _ (by decide)]; exact ih rest
                · have hb : b.toNat < 128 := by
                    have := UInt8.lt_iff_toNat_lt.mp hlt
                    simpa using this
                  simp only [List.cons_append, List.nil_append]
                  rw [strBody_escu 0x30 0x30 _ _ _ (by decide) (by decide)
                        (hexDigitLower_isHex _ (by omega)) (hexDigitLower_isHex _ (by omega))]
                  exact ih rest
      · next hge =>
        split
        · simp only [List.cons_append, List.nil_append]
          rw [strBody_escu 0x66 0x66 0x66 0x64 _ (by decide) (by decide) (by decide) (by decide)]
          exact ih rest
        · next n hn0 =>
          split
          · simp only [List.cons_append, List.nil_append]
            rw [strBody_escu 0x32 0x30 0x32 0x38 _ (by decide) (by decide) (by decide) (by decide)]
            exact ih _
          · split
            · simp only [List.cons_append, List.nil_append]
              rw [strBody_escu 0x32 0x30 0x32 0x39 _ (by decide) (by decide) (by decide) (by decide)]
              exact ih _
            · next heq =>
              rw [strBody_high _ _ (utf8Len_high b rest hge _ rfl)]
              exact ih _

/-- a JSON string token: opening quote, a body accepted by the RFC 8259 string grammar, closing quote -/
def IsStringToken (t : JBytes) : Prop := ∃ body, t = 0x22 :: body ++ [0x22] ∧ strBodyOk body = true

/-- **C08 (string encoder).**  For EVERY byte string — invalid UTF-8, control characters, quotes, backslashes,
U+2028/9 included — the output of `AppendString` is a well-formed JSON string token. -/
theorem C08_appendString_valid (s : JBytes) : IsStringToken (appendString s) :=
  ⟨escapeBody s.length s, rfl, escapeBody_ok _ _⟩

/-- **C08 (non-finite values fail the payload).**  A NaN or infinite value anywhere makes the metric payload fail
instead of producing output. -/
theorem C08_float_valid_or_error (v : FVal) :
    (∃ i, v = .int i ∧ appendFloat v = some (bs (toString i))) ∨ (appendFloat v = none ∧ (v = .nan ∨ v = .posInf ∨ v = .negInf)) := by
  cases v with
  | int i => exact Or.inl ⟨i, rfl, rfl⟩
  | nan => exact Or.inr ⟨rfl, Or.inl rfl⟩
  | posInf => exact Or.inr ⟨rfl, Or.inr (Or.inl rfl)⟩
  | negInf => exact Or.inr ⟨rfl, Or.inr (Or.inr rfl)⟩

theorem allSome_none_of_mem {α : Type} (l : List (Option α)) (h : none ∈ l) : allSome l = none := by
  induction l with
  | nil => cases h
  | cons x xs ih =>
    cases x with
    | none => rfl
    | some a =>
      have : none ∈ xs := by simpa using h
      simp [allSome, ih this]

theorem C08_metrics_nonfinite_fails (runId : JBytes) (start stop : Int) (rows : List MRow) (r : MRow) (v : FVal)
    (hr : r ∈ rows) (hv : v ∈ r.vals) (hbad : appendFloat v = none) :
    metricsPayload runId start stop rows = none := by
  have h1 : metricRow r = none := by
    unfold metricRow
    rw [allSome_none_of_mem _ (by simpa using ⟨v, hv, hbad⟩)]
    rfl
  unfold metricsPayload
  rw [allSome_none_of_mem _ (by simpa using ⟨r, hr, h1⟩)]
  rfl

/-! ### shapes: each builder renders a JSON tree of the documented shape -/

/-- a JSON tree with already-encoded leaves -/
inductive JV where
  | tok (t : JBytes)                 -- a string token produced by the encoder, a decimal integer, or an agent fragment
  | arr (items : List JV)
  | obj (members : List (JBytes × JV))  -- keys are literal, already quoted

mutual
  def JV.render : JV → JBytes
    | .tok t => t
    | .arr items => bs "[" ++ JV.renderList items ++ bs "]"
    | .obj ms => bs "{" ++ JV.renderMembers ms ++ bs "}"
  def JV.renderList : List JV → JBytes
    | [] => []
    | [x] => x.render
    | x :: y :: xs => x.render ++ bs "," ++ JV.renderList (y :: xs)
  def JV.renderMembers : List (JBytes × JV) → JBytes
    | [] => []
    | [(k, v)] => k ++ bs ":" ++ v.render
    | (k, v) :: m :: ms => k ++ bs ":" ++ v.render ++ bs "," ++ JV.renderMembers (m :: ms)
end

theorem renderList_toks (l : List JBytes) : JV.renderList (l.map JV.tok) = joinWith (bs ",") l := by
  induction l with
  | nil => rfl
  | cons x xs ih =>
    cases xs with
    | nil => simp [JV.renderList, JV.render, joinWith]
    | cons y ys =>
      simp only [List.map_cons, JV.renderList, JV.render, joinWith] at *
      rw [ih]

/-- **C08 (event payload shape).**  `[run id, {"reservoir_size":C,"events_seen":S}, [fragments…]]` for empty, single,
full, split and carried-over reservoirs alike (the builder does not depend on how the events got there). -/
theorem C08_events_payload_shape (runId : JBytes) (cap seen : Nat) (events : List JBytes) :
    eventsPayload runId cap seen events =
      (JV.arr [.tok (appendString runId),
               .obj [(bs "\"reservoir_size\"", .tok (bs (toString cap))), (bs "\"events_seen\"", .tok (bs (toString seen)))],
               .arr (events.map .tok)]).render := by
  simp only [eventsPayload, JV.render, JV.renderList, JV.renderMembers, renderList_toks, List.append_assoc]

/-- **C08 (log payload shape).**  `[{"common": {"attributes": L},"logs": [fragments of at least 4 bytes…]}]` — in
particular a skipped (short) event never leaves a stray comma behind, wherever it stood. -/
theorem C08_log_payload_shape (labels : JBytes) (events : List JBytes) :
    logPayload labels events =
      bs "[{\"common\": {\"attributes\": " ++ labels ++ bs "},\"logs\": " ++
      (JV.arr ((events.filter (fun e => e.length ≥ 4)).map .tok)).render ++ bs "}]" := by
  simp only [logPayload, JV.render, renderList_toks, List.append_assoc]

theorem renderList_map_arr (f : JBytes × JBytes → JV) (g : JBytes × JBytes → JBytes) (l : List (JBytes × JBytes))
    (h : ∀ p, (f p).render = g p) : JV.renderList (l.map f) = joinWith (bs ",") (l.map g) := by
  induction l with
  | nil => rfl
  | cons x xs ih =>
    cases xs with
    | nil => simp [JV.renderList, joinWith, h]
    | cons y ys =>
      simp only [List.map_cons, JV.renderList, joinWith] at *
      rw [ih, h]

/-- **C08 (package payloads).**  `["Jars", D]`, and the filtered list is an array of `[name, version, {}]` triples whose
strings all come from the string encoder (so any byte in a package name or version is escaped). -/
theorem C08_packages_payload_shape (data : JBytes) (pkgs : List (JBytes × JBytes)) (hne : pkgs ≠ []) :
    packagesPayload data = (JV.arr [.tok (bs "\"Jars\""), .tok data]).render ∧
    filteredPackages pkgs = some (JV.arr (pkgs.map (fun p =>
      JV.arr [.tok (appendString p.1), .tok (appendString p.2), .tok (bs "{}")]))).render := by
  constructor
  · simp only [packagesPayload, JV.render, JV.renderList, List.append_assoc]
  · have he : pkgs.isEmpty = false := by cases pkgs <;> simp_all
    simp only [filteredPackages, he, Bool.false_eq_true, if_false, JV.render]
    rw [renderList_map_arr _ (fun p => bs "[" ++ appendString p.1 ++ bs "," ++ appendString p.2 ++ bs "," ++ bs "{}" ++ bs "]")]
    intro p
    simp only [JV.render, JV.renderList, List.append_assoc]

/-- **C08 (metric payload shape).**  `[run id, start, end, [[{"name":N(,"scope":S)},[six numbers]]…]]`. -/
theorem C08_metric_row_shape (r : MRow) (fs : List JBytes) (h : allSome (r.vals.map appendFloat) = some fs) :
    metricRow r = some (JV.arr [
      .obj ([(bs "\"name\"", JV.tok (appendString r.name))] ++
            (if r.scope.isEmpty then [] else [(bs "\"scope\"", JV.tok (appendString r.scope))])),
      .arr (fs.map .tok)]).render := by
  unfold metricRow
  rw [h]
  simp only [Option.map_some, JV.render, JV.renderList, renderList_toks]
  congr 1
  by_cases he : r.scope.isEmpty
  · simp only [he, if_true, List.append_nil, JV.renderMembers, JV.render, List.append_assoc]
  · simp only [he, Bool.false_eq_true, if_false, List.cons_append, List.nil_append, JV.renderMembers, JV.render, List.append_assoc]

/-! ## The rendered trees are JSON texts (RFC 8259 grammar without insignificant white space) -/

mutual
  /-- JSON values over a class of leaf tokens (strings, numbers, literals, agent fragments) -/
  inductive IsJson (leaf : JBytes → Prop) : JBytes → Prop
    | tok {t : JBytes} : leaf t → IsJson leaf t
    | emptyArr : IsJson leaf (bs "[" ++ [] ++ bs "]")
    | arr {b : JBytes} : IsElems leaf b → IsJson leaf (bs "[" ++ b ++ bs "]")
    | emptyObj : IsJson leaf (bs "{" ++ [] ++ bs "}")
    | obj {b : JBytes} : IsMembers leaf b → IsJson leaf (bs "{" ++ b ++ bs "}")
  /-- value (',' value)* -/
  inductive IsElems (leaf : JBytes → Prop) : JBytes → Prop
    | one {v : JBytes} : IsJson leaf v → IsElems leaf v
    | cons {v rest : JBytes} : IsJson leaf v → IsElems leaf rest → IsElems leaf (v ++ bs "," ++ rest)
  /-- string ':' value (',' string ':' value)* -/
  inductive IsMembers (leaf : JBytes → Prop) : JBytes → Prop
    | one {k v : JBytes} : IsStringToken k → IsJson leaf v → IsMembers leaf (k ++ bs ":" ++ v)
    | cons {k v rest : JBytes} : IsStringToken k → IsJson leaf v → IsMembers leaf rest →
        IsMembers leaf (k ++ bs ":" ++ v ++ bs "," ++ rest)
    -- insignificant white space (one blank) after the name separator, as the log payload writes it
    | oneSp {k v : JBytes} : IsStringToken k → IsJson leaf v → IsMembers leaf (k ++ bs ": " ++ v)
    | consSp {k v rest : JBytes} : IsStringToken k → IsJson leaf v → IsMembers leaf rest →
        IsMembers leaf (k ++ bs ": " ++ v ++ bs "," ++ rest)
end

mutual
  /-- every leaf of the tree is an acceptable token and every key a string token -/
  def JV.WellFormed (leaf : JBytes → Prop) : JV → Prop
    | .tok t => leaf t
    | .arr items => JV.WellFormedList leaf items
    | .obj ms => JV.WellFormedMembers leaf ms
  def JV.WellFormedList (leaf : JBytes → Prop) : List JV → Prop
    | [] => True
    | x :: xs => x.WellFormed leaf ∧ JV.WellFormedList leaf xs
  def JV.WellFormedMembers (leaf : JBytes → Prop) : List (JBytes × JV) → Prop
    | [] => True
    | (k, v) :: ms => IsStringToken k ∧ v.WellFormed leaf ∧ JV.WellFormedMembers leaf ms
end

mutual
  theorem render_isJson (leaf : JBytes → Prop) : ∀ (v : JV), v.WellFormed leaf → IsJson leaf v.render
    | .tok t, h => IsJson.tok h
    | .arr items, h => by
        cases items with
        | nil => simpa [JV.render, JV.renderList] using (IsJson.emptyArr (leaf := leaf))
        | cons x xs =>
          simp only [JV.render]
          exact IsJson.arr (renderList_isElems leaf (x :: xs) (by simp) h)
    | .obj ms, h => by
        cases ms with
        | nil => simpa [JV.render, JV.renderMembers] using (IsJson.emptyObj (leaf := leaf))
        | cons m ms' =>
          simp only [JV.render]
          exact IsJson.obj (renderMembers_isMembers leaf (m :: ms') (by simp) h)
  theorem renderList_isElems (leaf : JBytes → Prop) : ∀ (l : List JV), l ≠ [] → JV.WellFormedList leaf l →
      IsElems leaf (JV.renderList l)
    | [], h, _ => absurd rfl h
    | [x], _, hw => by
        simp only [JV.renderList]
        exact IsElems.one (render_isJson leaf x hw.1)
    | x :: y :: xs, _, hw => by
        simp only [JV.renderList]
        exact IsElems.cons (render_isJson leaf x hw.1) (renderList_isElems leaf (y :: xs) (by simp) hw.2)
  theorem renderMembers_isMembers (leaf : JBytes → Prop) : ∀ (l : List (JBytes × JV)), l ≠ [] →
      JV.WellFormedMembers leaf l → IsMembers leaf (JV.renderMembers l)
    | [], h, _ => absurd rfl h
    | [(k, v)], _, hw => by
        simp only [JV.renderMembers]
        exact IsMembers.one hw.1 (render_isJson leaf v hw.2.1)
    | (k, v) :: m :: ms, _, hw => by
        simp only [JV.renderMembers]
        exact IsMembers.cons hw.1 (render_isJson leaf v hw.2.1) (renderMembers_isMembers leaf (m :: ms) (by simp) hw.2.2)
end

/-- the two literal keys of the event payload are string tokens.  Lean's kernel does not reduce `String.toUTF8` on
literals, so this is checked by evaluation (`#guard`), not by proof, and enters the theorem below as a hypothesis. -/
def eventKeysOk : Bool :=
  bs "\"reservoir_size\"" == 0x22 :: bs "reservoir_size" ++ [0x22] && strBodyOk (bs "reservoir_size") &&
  bs "\"events_seen\"" == 0x22 :: bs "events_seen" ++ [0x22] && strBodyOk (bs "events_seen")
#guard eventKeysOk

theorem wellFormedList_toks (leaf : JBytes → Prop) (l : List JBytes) (h : ∀ e ∈ l, leaf e) :
    JV.WellFormedList leaf (l.map JV.tok) := by
  induction l with
  | nil => trivial
  | cons x xs ih =>
    exact ⟨h x (by simp), ih (fun e he => h e (by simp [he]))⟩

/-- **C08 (an event payload is a JSON text).**  For every run id (any bytes), every capacity and counter, and every list
of agent fragments that are JSON values themselves, the bytes `analyticsEvents.CollectorJSON` produces are generated by the
JSON grammar: brackets balance, separators sit between elements only, keys are string tokens. -/
theorem C08_events_payload_is_json (leaf : JBytes → Prop) (hs : ∀ t, IsStringToken t → leaf t)
    (hn : ∀ n : Nat, leaf (bs (toString n)))
    (hk1 : IsStringToken (bs "\"reservoir_size\"")) (hk2 : IsStringToken (bs "\"events_seen\""))
    (runId : JBytes) (cap seen : Nat) (events : List JBytes)
    (he : ∀ e ∈ events, leaf e) : IsJson leaf (eventsPayload runId cap seen events) := by
  rw [C08_events_payload_shape]
  apply render_isJson
  refine ⟨hs _ (C08_appendString_valid runId), ⟨hk1, hn cap, hk2, hn seen, trivial⟩, ?_, trivial⟩
  exact wellFormedList_toks leaf events he


/-! ### the other hand-assembled payloads are JSON texts too -/

/-- the literal keys of the metric, package and log payloads are string tokens (checked by evaluation, see `eventKeysOk`) -/
def otherKeysOk : Bool :=
  ["name", "scope", "Jars", "common", "attributes", "logs"].all (fun k =>
    bs ("\"" ++ k ++ "\"") == 0x22 :: bs k ++ [0x22] && strBodyOk (bs k))
#guard otherKeysOk

theorem allSome_eq_filterMap {α β : Type} (f : α → Option β) (l : List α) (xs : List β)
    (h : allSome (l.map f) = some xs) : xs = l.filterMap f := by
  induction l generalizing xs with
  | nil => simp [allSome] at h; simp [h]
  | cons a as ih =>
    simp only [List.map_cons] at h
    cases hf : f a with
    | none => simp [hf, allSome] at h
    | some b =>
      simp only [hf, allSome] at h
      cases hr : allSome (as.map f) with
      | none => simp [hr] at h
      | some ys =>
        simp only [hr, Option.map_some, Option.some.injEq] at h
        subst h
        simp [List.filterMap_cons, hf, ih ys hr]

theorem renderList_map {α : Type} (f : α → JV) (g : α → JBytes) (l : List α)
    (h : ∀ p ∈ l, (f p).render = g p) : JV.renderList (l.map f) = joinWith (bs ",") (l.map g) := by
  induction l with
  | nil => rfl
  | cons x xs ih =>
    cases xs with
    | nil => simp [JV.renderList, joinWith, h]
    | cons y ys =>
      simp only [List.map_cons, JV.renderList, joinWith] at *
      rw [ih (fun p hp => h p (by simp [hp])), h x (by simp)]

/-- the tree of one metric row -/
def rowTree (r : MRow) : JV :=
  JV.arr [.obj ([(bs "\"name\"", JV.tok (appendString r.name))] ++
                (if r.scope.isEmpty then [] else [(bs "\"scope\"", JV.tok (appendString r.scope))])),
          .arr ((r.vals.filterMap appendFloat).map .tok)]

theorem metricRow_render (r : MRow) (b : JBytes) (h : metricRow r = some b) : b = (rowTree r).render := by
  cases hv : allSome (r.vals.map appendFloat) with
  | none => simp [metricRow, hv] at h
  | some fs =>
    have := C08_metric_row_shape r fs hv
    rw [this] at h
    have hfs := allSome_eq_filterMap appendFloat r.vals fs hv
    subst hfs
    simpa [rowTree] using h.symm

theorem appendFloat_leaf (leaf : JBytes → Prop) (hi : ∀ i : Int, leaf (bs (toString i))) (vals : List FVal) :
    ∀ t ∈ vals.filterMap appendFloat, leaf t := by
  intro t ht
  obtain ⟨v, _, hv⟩ := List.mem_filterMap.mp ht
  cases v with
  | int i => simp [appendFloat] at hv; subst hv; exact hi i
  | nan => simp [appendFloat] at hv
  | posInf => simp [appendFloat] at hv
  | negInf => simp [appendFloat] at hv

theorem rowTree_wellFormed (leaf : JBytes → Prop) (hs : ∀ t, IsStringToken t → leaf t)
    (hi : ∀ i : Int, leaf (bs (toString i)))
    (hk1 : IsStringToken (bs "\"name\"")) (hk2 : IsStringToken (bs "\"scope\"")) (r : MRow) :
    (rowTree r).WellFormed leaf := by
  refine ⟨?_, ?_, trivial⟩
  · by_cases he : r.scope.isEmpty
    · simp only [he, if_true, List.append_nil]
      exact ⟨hk1, hs _ (C08_appendString_valid r.name), trivial⟩
    · simp only [he, Bool.false_eq_true, if_false]
      exact ⟨hk1, hs _ (C08_appendString_valid r.name), hk2, hs _ (C08_appendString_valid r.scope), trivial⟩
  · exact wellFormedList_toks leaf _ (appendFloat_leaf leaf hi r.vals)

theorem wellFormedList_map {α : Type} (leaf : JBytes → Prop) (f : α → JV) (l : List α) (h : ∀ a ∈ l, (f a).WellFormed leaf) :
    JV.WellFormedList leaf (l.map f) := by
  induction l with
  | nil => trivial
  | cons x xs ih => exact ⟨h x (by simp), ih (fun a ha => h a (by simp [ha]))⟩

/-- **C08 (a metric payload is a JSON text, or fails).**  For every run id, every name and scope (any bytes), every
number of rows in any order: if `MetricTable.CollectorJSON` produces bytes at all (no NaN / infinity, see
`C08_metrics_nonfinite_fails`), they are generated by the JSON grammar. -/
theorem C08_metrics_payload_is_json (leaf : JBytes → Prop) (hs : ∀ t, IsStringToken t → leaf t)
    (hi : ∀ i : Int, leaf (bs (toString i)))
    (hk1 : IsStringToken (bs "\"name\"")) (hk2 : IsStringToken (bs "\"scope\""))
    (runId : JBytes) (start stop : Int) (rows : List MRow) (b : JBytes)
    (h : metricsPayload runId start stop rows = some b) : IsJson leaf b := by
  unfold metricsPayload at h
  cases hr : allSome (rows.map metricRow) with
  | none => simp [hr] at h
  | some rs =>
    simp only [hr, Option.map_some, Option.some.injEq] at h
    have hrs := allSome_eq_filterMap metricRow rows rs hr
    have hall : ∀ r ∈ rows, ∃ rb, metricRow r = some rb := by
      intro r hrm
      cases hm : metricRow r with
      | some rb => exact ⟨rb, rfl⟩
      | none =>
        have : allSome (rows.map metricRow) = none := allSome_none_of_mem _ (by simpa using ⟨r, hrm, hm⟩)
        rw [this] at hr; cases hr
    have hmap : rs = rows.map (fun r => (rowTree r).render) := by
      rw [hrs]
      clear hrs hr h
      induction rows with
      | nil => rfl
      | cons r rest ih =>
        obtain ⟨rb, hrb⟩ := hall r (by simp)
        simp only [List.filterMap_cons, hrb, List.map_cons]
        rw [metricRow_render r rb hrb, ih (fun x hx => hall x (by simp [hx]))]
    have hb : b = (JV.arr [.tok (appendString runId), .tok (appendInt start), .tok (appendInt stop),
                           .arr (rows.map rowTree)]).render := by
      rw [← h, hmap]
      simp only [JV.render, JV.renderList, List.append_assoc]
      rw [renderList_map rowTree (fun r => (rowTree r).render) rows (fun _ _ => rfl)]
    rw [hb]
    apply render_isJson
    refine ⟨hs _ (C08_appendString_valid runId), hi start, hi stop, ?_, trivial⟩
    exact wellFormedList_map leaf rowTree rows (fun r _ => rowTree_wellFormed leaf hs hi hk1 hk2 r)

/-- **C08 (package payloads are JSON texts).**  `["Jars", D]` for a package list `D` that is itself a JSON value, and the
filtered list built from arbitrary name / version bytes. -/
theorem C08_packages_payload_is_json (leaf : JBytes → Prop) (hs : ∀ t, IsStringToken t → leaf t)
    (hobj : leaf (bs "{}")) (hk : IsStringToken (bs "\"Jars\""))
    (data : JBytes) (hd : leaf data) (pkgs : List (JBytes × JBytes)) (hne : pkgs ≠ []) :
    IsJson leaf (packagesPayload data) ∧ ∃ b, filteredPackages pkgs = some b ∧ IsJson leaf b := by
  obtain ⟨h1, h2⟩ := C08_packages_payload_shape data pkgs hne
  constructor
  · rw [h1]
    exact render_isJson leaf _ ⟨hs _ hk, hd, trivial⟩
  · refine ⟨_, h2, ?_⟩
    apply render_isJson
    exact wellFormedList_map leaf _ pkgs (fun p _ =>
      ⟨hs _ (C08_appendString_valid p.1), hs _ (C08_appendString_valid p.2), hobj, trivial⟩)

/-- **C08 (the log payload is a JSON text).**  `[{"common": {"attributes": L},"logs": [...]}]` with the labels object `L`
and every forwarded event a JSON value; events shorter than 4 bytes are skipped wherever they stand, and no separator
is left behind. -/
theorem C08_log_payload_is_json (leaf : JBytes → Prop)
    (hk1 : IsStringToken (bs "\"common\"")) (hk2 : IsStringToken (bs "\"attributes\"")) (hk3 : IsStringToken (bs "\"logs\""))
    (hsplit : bs "[{\"common\": {\"attributes\": " = bs "[" ++ (bs "{" ++ (bs "\"common\"" ++ (bs ": " ++ (bs "{" ++ (bs "\"attributes\"" ++ bs ": "))))))
    (hsplit2 : bs "},\"logs\": " = bs "}" ++ (bs "," ++ (bs "\"logs\"" ++ bs ": ")))
    (hsplit3 : bs "}]" = bs "}" ++ bs "]")
    (labels : JBytes) (hl : leaf labels) (events : List JBytes) (he : ∀ e ∈ events, leaf e) :
    IsJson leaf (logPayload labels events) := by
  rw [C08_log_payload_shape, hsplit, hsplit2, hsplit3]
  have harr : IsJson leaf (JV.arr ((events.filter (fun e => e.length ≥ 4)).map .tok)).render :=
    render_isJson leaf _ (wellFormedList_toks leaf _ (fun e hm => he e (List.mem_filter.mp hm).1))
  have hinner : IsJson leaf (bs "{" ++ (bs "\"attributes\"" ++ bs ": " ++ labels) ++ bs "}") :=
    IsJson.obj (IsMembers.oneSp hk2 (IsJson.tok hl))
  have hmem : IsMembers leaf (bs "\"common\"" ++ bs ": " ++ (bs "{" ++ (bs "\"attributes\"" ++ bs ": " ++ labels) ++ bs "}") ++ bs "," ++
      (bs "\"logs\"" ++ bs ": " ++ (JV.arr ((events.filter (fun e => e.length ≥ 4)).map .tok)).render)) :=
    IsMembers.consSp hk1 hinner (IsMembers.oneSp hk3 harr)
  have := IsJson.arr (IsElems.one (IsJson.obj hmem))
  simpa only [List.append_assoc] using this

theorem renderMembers_map (enc : JBytes → JBytes) (m : List (JBytes × JBytes)) :
    JV.renderMembers (m.map (fun kv => (enc kv.1, JV.tok (enc kv.2)))) =
      joinWith (bs ",") (m.map (fun kv => enc kv.1 ++ bs ":" ++ enc kv.2)) := by
  induction m with
  | nil => rfl
  | cons x xs ih =>
    cases xs with
    | nil => simp [JV.renderMembers, JV.render, joinWith]
    | cons y ys =>
      simp only [List.map_cons, JV.renderMembers, JV.render, joinWith, List.append_assoc] at *
      rw [ih]

theorem wellFormedMembers_map (leaf : JBytes → Prop) (enc : JBytes → JBytes) (henc : ∀ s, IsStringToken (enc s))
    (hs : ∀ t, IsStringToken t → leaf t) (m : List (JBytes × JBytes)) :
    JV.WellFormedMembers leaf (m.map (fun kv => (enc kv.1, JV.tok (enc kv.2)))) := by
  induction m with
  | nil => trivial
  | cons x xs ih => exact ⟨henc _, hs _ (henc _), ih⟩

/-- **C08 (the label object of the log payload is a JSON object).**  For every label list the agent sends — valid and
invalid labels in any order, repeated types — the `"attributes"` value is `{}` or a well-formed object of string members:
no separator is written for a label that is left out. -/
theorem C08_log_labels_object_is_json (leaf : JBytes → Prop) (hs : ∀ t, IsStringToken t → leaf t)
    (enc : JBytes → JBytes) (henc : ∀ s, IsStringToken (enc s)) (ls : List (JBytes × JBytes)) :
    IsJson leaf (logLabelsObject enc ls) := by
  unfold logLabelsObject
  simp only []
  rw [← renderMembers_map]
  exact render_isJson leaf (JV.obj _) (wellFormedMembers_map leaf enc henc hs _)

/-- one invalid label discards the whole list (`SetLogForwardingLabels`), so the object is then empty -/
theorem C08_log_labels_invalid_discards_all (enc : JBytes → JBytes) (ls : List (JBytes × JBytes))
    (h : ∃ l ∈ ls, l.1 = [] ∨ l.2 = []) : logLabelsObject enc ls = bs "{" ++ bs "}" := by
  obtain ⟨l, hl, hbad⟩ := h
  have : ls.any (fun l => l.1.isEmpty || l.2.isEmpty) = true := by
    rw [List.any_eq_true]
    refine ⟨l, hl, ?_⟩
    rcases hbad with h | h <;> simp [h]
  simp [logLabelsObject, logLabelsKept, this, joinWith]

/-- the literal pieces of the log payload split as the proof above assumes (evaluation, as for the keys) -/
def logLiteralsOk : Bool :=
  bs "[{\"common\": {\"attributes\": " == bs "[" ++ (bs "{" ++ (bs "\"common\"" ++ (bs ": " ++ (bs "{" ++ (bs "\"attributes\"" ++ bs ": "))))) &&
  bs "},\"logs\": " == bs "}" ++ (bs "," ++ (bs "\"logs\"" ++ bs ": ")) && bs "}]" == bs "}" ++ bs "]"
#guard logLiteralsOk


/-! ## Ties to the current source: the functions transcribed by the model have not changed since they were reviewed (`Props/Reviewed.lean`) -/

/-- **C08 (tie).**  `setLogForwardingLabels`: one invalid label discards the list. -/
theorem C08_set_labels_source_tied : Gen.Skeleton.setLogForwardingLabels = Reviewed.setLogForwardingLabels := rfl

/-- **C08 (tie).**  `logCollectorJSON`: labels through a map and encoding/json; short events skipped; separators between written events only. -/
theorem C08_log_json_source_tied : Gen.Skeleton.logCollectorJSON = Reviewed.logCollectorJSON := rfl
