import NrDaemon.Model.Respawn
/-!
  C20 — crashed workers are respawned; only one daemon owns a pid file.
  (Part 1: the respawn decision.  Part 2, the pid-file machine, is in `NrDaemon/Props/C20Pid.lean` when present.)
-/
open Gen.Respawn

/-- **C20 (respawn decision table)** over the REGENERATED `shouldRespawn`: the worker is respawned iff waiting
failed, or it exited with status ≥ 2, or it was killed by a signal other than SIGTERM (15), or its status is
neither an exit nor a signal. -/
theorem C20_respawn_table (code sig : Int) (exited signaled err : Bool) :
    shouldRespawn code exited sig signaled err = true ↔
      (err = true ∨ (exited = true ∧ code ≥ 2) ∨ (exited = false ∧ signaled = true ∧ sig ≠ 15) ∨
       (exited = false ∧ signaled = false)) := by
  unfold shouldRespawn
  cases err <;> cases exited <;> cases signaled <;> simp

/-- **C20 (every wait status)**: for every 16-bit wait status word, a new worker is started after an abnormal
termination (exit status 2..255, or death by any signal other than SIGTERM) and is not after exit status 0 or 1
or SIGTERM. -/
theorem C20_respawn_every_status (w : Nat) :
    let v := waitView w
    (v.exited = true → (respawnWord w = true ↔ v.code ≥ 2)) ∧
    (v.signaled = true → (respawnWord w = true ↔ v.sig ≠ 15)) ∧
    ¬ (v.exited = true ∧ v.signaled = true) := by
  simp only [respawnWord, shouldRespawn, waitView]
  refine ⟨?_, ?_, ?_⟩
  · intro h; simp [h]
  · intro h
    have h0 : (w % 128 == 0) = false := by
      simp only [Bool.and_eq_true, bne_iff_ne, ne_eq] at h
      simpa using h.2
    simp [h0, h]
  · simp only [Bool.and_eq_true, bne_iff_ne, ne_eq, beq_iff_eq]
    omega

/-- clean exit (0), exit status 1 and SIGTERM do not respawn; exit 2, 3 (crash guard) and SIGKILL/SIGSEGV do -/
theorem C20_respawn_examples :
    respawnWord 0 = false ∧ respawnWord 256 = false ∧ respawnWord 15 = false ∧
    respawnWord 512 = true ∧ respawnWord 768 = true ∧ respawnWord 9 = true ∧ respawnWord 11 = true ∧
    respawnWord (128 + 11) = true := by decide

/-- **C20 (watcher loop)**: the watcher spawns exactly one worker per abnormal termination plus the first, and a
SIGTERM to the watcher is forwarded to the current worker and ends supervision. -/
theorem C20_watcher_loop (outs : List (Option Nat)) :
    (watcherLoop (none :: outs) = (1, true)) ∧
    (∀ w, respawnWord w = false → watcherLoop (some w :: outs) = (1, false)) ∧
    (∀ w, respawnWord w = true → watcherLoop (some w :: outs) = ((watcherLoop outs).1 + 1, (watcherLoop outs).2)) := by
  refine ⟨rfl, ?_, ?_⟩
  · intro w h; simp [watcherLoop, h]
  · intro w h; simp [watcherLoop, h]
