import NrDaemon.Model.Respawn
import NrDaemon.Model.PidFile
import NrDaemon.Gen.Watcher
import NrDaemon.Gen.Worker
/-!
  C20 — crashed workers are respawned; only one daemon owns a pid file.
  (Part 1: the respawn decision.  Part 2: the pid-file machine and the watcher's signal channel.)
-/
open Gen.Respawn

/-- **C20 (respawn decision table)** over the REGENERATED `shouldRespawn`: the worker is respawned iff waiting
failed, or it exited with status ≥ 2, or it was killed by a signal other than SIGTERM (15), or its status is
neither an exit nor a signal. -/
theorem C20_respawn_table (code sig : Int) (exited signaled err : Bool) :
    shouldRespawn code exited sig signaled err = true ↔
      (err = true ∨ (exited = true ∧ code ≥ 2) ∨ (exited = false ∧ signaled = true ∧ sig ≠ 15) ∨
       (exited = false ∧ signaled = false)) := by
  unfold shouldRespawn
  cases err <;> cases exited <;> cases signaled <;> simp

/-- **C20 (every wait status)**: for every 16-bit wait status word, a new worker is started after an abnormal
termination (exit status 2..255, or death by any signal other than SIGTERM) and is not after exit status 0 or 1
or SIGTERM. -/
theorem C20_respawn_every_status (w : Nat) :
    let v := waitView w
    (v.exited = true → (respawnWord w = true ↔ v.code ≥ 2)) ∧
    (v.signaled = true → (respawnWord w = true ↔ v.sig ≠ 15)) ∧
    ¬ (v.exited = true ∧ v.signaled = true) := by
  simp only [respawnWord, shouldRespawn, waitView]
  refine ⟨?_, ?_, ?_⟩
  · intro h; simp [h]
  · intro h
    have h0 : (w % 128 == 0) = false := by
      simp only [Bool.and_eq_true, bne_iff_ne, ne_eq] at h
      simpa using h.2
    simp [h0, h]
  · simp only [Bool.and_eq_true, bne_iff_ne, ne_eq, beq_iff_eq]
    omega

/-- clean exit (0), exit status 1 and SIGTERM do not respawn; exit 2, 3 (crash guard) and SIGKILL/SIGSEGV do -/
theorem C20_respawn_examples :
    respawnWord 0 = false ∧ respawnWord 256 = false ∧ respawnWord 15 = false ∧
    respawnWord 512 = true ∧ respawnWord 768 = true ∧ respawnWord 9 = true ∧ respawnWord 11 = true ∧
    respawnWord (128 + 11) = true := by decide

/-- **C20 (watcher loop)**: the watcher spawns exactly one worker per abnormal termination plus the first, and a
SIGTERM to the watcher is forwarded to the current worker and ends supervision. -/
theorem C20_watcher_loop (outs : List (Option Nat)) :
    (watcherLoop (none :: outs) = (1, true)) ∧
    (∀ w, respawnWord w = false → watcherLoop (some w :: outs) = (1, false)) ∧
    (∀ w, respawnWord w = true → watcherLoop (some w :: outs) = ((watcherLoop outs).1 + 1, (watcherLoop outs).2)) := by
  refine ⟨rfl, ?_, ?_⟩
  · intro w h; simp [watcherLoop, h]
  · intro w h; simp [watcherLoop, h]

/-! # Part 2 — only one daemon owns a pid file; a SIGTERM to the watcher is not lost -/

set_option linter.unusedSimpArgs false
set_option linter.unusedVariables false

structure PF.Inv (s : PF) : Prop where
  lockPc : ∀ i p, s.lock i = some p → (s.pc p).holdsLock i = true
  pcLock : ∀ p i, (s.pc p).holdsLock i = true → s.lock i = some p
  ownPath : ∀ p i, (s.pc p).owns i = true → s.path = some i
  freshPath : ∀ i, s.path = some i → i < s.next
  freshPc : ∀ p i, (s.pc p).ino = some i → i < s.next

theorem pf_init_inv : ({} : PF).Inv := by
  constructor <;> simp [PC.holdsLock, PC.owns, PC.ino]

@[simp] theorem upd_same {α : Type} (f : Nat → α) (a : Nat) (b : α) : upd f a b a = b := by simp [upd]
theorem upd_other {α : Type} (f : Nat → α) (a x : Nat) (b : α) (h : x ≠ a) : upd f a b x = f x := by simp [upd, h]

theorem holdsLock_ino {c : PC} {i : Nat} (h : c.holdsLock i = true) : c.ino = some i := by
  cases c <;> simp_all [PC.holdsLock, PC.ino]

theorem owns_holds {c : PC} {i : Nat} (h : c.owns i = true) : c.holdsLock i = true := by
  cases c <;> simp_all [PC.holdsLock, PC.owns]

/-- every step of every process preserves the invariant -/
theorem pf_step_inv (s : PF) (p : Nat) (a : PAct) (h : s.Inv) : (s.step p a).Inv := by
  obtain ⟨h1, h2, h3, h4, h5⟩ := h
  unfold PF.step
  split
  · -- open
    rename_i hpc
    split
    · rename_i i hpath
      refine ⟨?_, ?_, ?_, h4, ?_⟩
      · intro j q hl
        by_cases hq : q = p
        · subst hq; have := h1 j q hl; rw [hpc] at this; simp [PC.holdsLock] at this
        · simp only [upd_other _ _ _ _ hq]; exact h1 j q hl
      · intro q j hh
        by_cases hq : q = p
        · subst hq; simp [PC.holdsLock] at hh
        · simp only [upd_other _ _ _ _ hq] at hh; exact h2 q j hh
      · intro q j hh
        by_cases hq : q = p
        · subst hq; simp [PC.owns] at hh
        · simp only [upd_other _ _ _ _ hq] at hh; exact h3 q j hh
      · intro q j hh
        by_cases hq : q = p
        · subst hq; simp [PC.ino] at hh; subst hh; exact h4 i hpath
        · simp only [upd_other _ _ _ _ hq] at hh; exact h5 q j hh
    · rename_i hpath
      refine ⟨?_, ?_, ?_, ?_, ?_⟩
      · intro j q hl
        by_cases hq : q = p
        · subst hq; have := h1 j q hl; rw [hpc] at this; simp [PC.holdsLock] at this
        · simp only [upd_other _ _ _ _ hq]; exact h1 j q hl
      · intro q j hh
        by_cases hq : q = p
        · subst hq; simp [PC.holdsLock] at hh
        · simp only [upd_other _ _ _ _ hq] at hh; exact h2 q j hh
      · intro q j hh
        by_cases hq : q = p
        · subst hq; simp [PC.owns] at hh
        · simp only [upd_other _ _ _ _ hq] at hh
          have := h3 q j hh; rw [hpath] at this; cases this
      · intro i hi
        have hi' : s.next = i := by simpa using hi
        show i < s.next + 1
        omega
      · intro q j hh
        show j < s.next + 1
        by_cases hq : q = p
        · subst hq
          have hj : s.next = j := by simpa [PC.ino] using hh
          omega
        · simp only [upd_other _ _ _ _ hq] at hh; have := h5 q j hh; omega
  · -- setlk
    rename_i i hpc
    split
    · rename_i hfree
      refine ⟨?_, ?_, ?_, h4, ?_⟩
      · intro j q hl
        by_cases hj : j = i
        · subst hj; simp at hl; subst hl; simp [PC.holdsLock]
        · simp only [upd_other _ _ _ _ hj] at hl
          by_cases hq : q = p
          · subst hq; have := h1 j q hl; rw [hpc] at this; simp [PC.holdsLock] at this
          · simp only [upd_other _ _ _ _ hq]; exact h1 j q hl
      · intro q j hh
        by_cases hq : q = p
        · subst hq; simp [PC.holdsLock] at hh; subst hh; simp
        · simp only [upd_other _ _ _ _ hq] at hh
          have := h2 q j hh
          by_cases hj : j = i
          · subst hj; rw [hfree] at this; cases this
          · simp only [upd_other _ _ _ _ hj]; exact this
      · intro q j hh
        by_cases hq : q = p
        · subst hq; simp [PC.owns] at hh
        · simp only [upd_other _ _ _ _ hq] at hh; exact h3 q j hh
      · intro q j hh
        by_cases hq : q = p
        · subst hq; simp [PC.ino] at hh; rw [← hh]; exact h5 q i (by rw [hpc]; rfl)
        · simp only [upd_other _ _ _ _ hq] at hh; exact h5 q j hh
    · refine ⟨?_, ?_, ?_, h4, ?_⟩
      · intro j q hl
        by_cases hq : q = p
        · subst hq; have := h1 j q hl; rw [hpc] at this; simp [PC.holdsLock] at this
        · simp only [upd_other _ _ _ _ hq]; exact h1 j q hl
      · intro q j hh
        by_cases hq : q = p
        · subst hq; simp [PC.holdsLock] at hh
        · simp only [upd_other _ _ _ _ hq] at hh; exact h2 q j hh
      · intro q j hh
        by_cases hq : q = p
        · subst hq; simp [PC.owns] at hh
        · simp only [upd_other _ _ _ _ hq] at hh; exact h3 q j hh
      · intro q j hh
        by_cases hq : q = p
        · subst hq; simp [PC.ino] at hh
        · simp only [upd_other _ _ _ _ hq] at hh; exact h5 q j hh
  · -- stat
    rename_i i hpc
    have hmine : s.lock i = some p := h2 p i (by rw [hpc]; simp [PC.holdsLock])
    split
    · rename_i hpath
      refine ⟨?_, ?_, ?_, h4, ?_⟩
      · intro j q hl
        by_cases hq : q = p
        · subst hq; have := h1 j q hl; rw [hpc] at this; simp [PC.holdsLock] at this; subst this; simp [PC.holdsLock]
        · simp only [upd_other _ _ _ _ hq]; exact h1 j q hl
      · intro q j hh
        by_cases hq : q = p
        · subst hq; simp [PC.holdsLock] at hh; subst hh; exact hmine
        · simp only [upd_other _ _ _ _ hq] at hh; exact h2 q j hh
      · intro q j hh
        by_cases hq : q = p
        · subst hq; simp [PC.owns] at hh; subst hh; exact hpath
        · simp only [upd_other _ _ _ _ hq] at hh; exact h3 q j hh
      · intro q j hh
        by_cases hq : q = p
        · subst hq; simp [PC.ino] at hh; rw [← hh]; exact h5 q i (by rw [hpc]; rfl)
        · simp only [upd_other _ _ _ _ hq] at hh; exact h5 q j hh
    · refine ⟨?_, ?_, ?_, h4, ?_⟩
      · intro j q hl
        by_cases hj : j = i
        · subst hj; simp at hl
        · simp only [upd_other _ _ _ _ hj] at hl
          by_cases hq : q = p
          · subst hq; have := h1 j q hl; rw [hpc] at this; simp [PC.holdsLock] at this; exact absurd this.symm hj
          · simp only [upd_other _ _ _ _ hq]; exact h1 j q hl
      · intro q j hh
        by_cases hq : q = p
        · subst hq; simp [PC.holdsLock] at hh
        · simp only [upd_other _ _ _ _ hq] at hh
          have := h2 q j hh
          by_cases hj : j = i
          · subst hj; rw [hmine] at this; injection this with this; exact absurd this.symm hq
          · simp only [upd_other _ _ _ _ hj]; exact this
      · intro q j hh
        by_cases hq : q = p
        · subst hq; simp [PC.owns] at hh
        · simp only [upd_other _ _ _ _ hq] at hh; exact h3 q j hh
      · intro q j hh
        by_cases hq : q = p
        · subst hq; simp [PC.ino] at hh
        · simp only [upd_other _ _ _ _ hq] at hh; exact h5 q j hh
  · -- trunc
    rename_i i hpc
    refine ⟨?_, ?_, ?_, h4, ?_⟩
    · intro j q hl
      by_cases hq : q = p
      · subst hq; have := h1 j q hl; rw [hpc] at this; simp [PC.holdsLock] at this; subst this; simp [PC.holdsLock]
      · simp only [upd_other _ _ _ _ hq]; exact h1 j q hl
    · intro q j hh
      by_cases hq : q = p
      · subst hq; simp [PC.holdsLock] at hh; rw [← hh]; exact h2 q i (by rw [hpc]; simp [PC.holdsLock])
      · simp only [upd_other _ _ _ _ hq] at hh; exact h2 q j hh
    · intro q j hh
      by_cases hq : q = p
      · subst hq; simp [PC.owns] at hh; rw [← hh]; exact h3 q i (by rw [hpc]; simp [PC.owns])
      · simp only [upd_other _ _ _ _ hq] at hh; exact h3 q j hh
    · intro q j hh
      by_cases hq : q = p
      · subst hq; simp [PC.ino] at hh; rw [← hh]; exact h5 q i (by rw [hpc]; rfl)
      · simp only [upd_other _ _ _ _ hq] at hh; exact h5 q j hh
  · -- remove
    rename_i i hpc
    have hmine : s.lock i = some p := h2 p i (by rw [hpc]; simp [PC.holdsLock])
    have hpath : s.path = some i := h3 p i (by rw [hpc]; simp [PC.owns])
    refine ⟨?_, ?_, ?_, ?_, ?_⟩
    · intro j q hl
      by_cases hq : q = p
      · subst hq; have := h1 j q hl; rw [hpc] at this; simp [PC.holdsLock] at this; subst this; simp [PC.holdsLock]
      · simp only [upd_other _ _ _ _ hq]; exact h1 j q hl
    · intro q j hh
      by_cases hq : q = p
      · subst hq; simp [PC.holdsLock] at hh; subst hh; exact hmine
      · simp only [upd_other _ _ _ _ hq] at hh; exact h2 q j hh
    · intro q j hh
      by_cases hq : q = p
      · subst hq; simp [PC.owns] at hh
      · simp only [upd_other _ _ _ _ hq] at hh
        -- another owner would own the same inode and hold the same lock
        have hpj := h3 q j hh
        rw [hpath] at hpj; injection hpj with hpj; subst hpj
        have := h2 q i (owns_holds hh)
        rw [hmine] at this; injection this with this; exact absurd this.symm hq
    · intro j hj; simp at hj
    · intro q j hh
      by_cases hq : q = p
      · subst hq; simp [PC.ino] at hh; rw [← hh]; exact h5 q i (by rw [hpc]; rfl)
      · simp only [upd_other _ _ _ _ hq] at hh; exact h5 q j hh
  · -- close
    rename_i i hpc
    have hmine : s.lock i = some p := h2 p i (by rw [hpc]; simp [PC.holdsLock])
    refine ⟨?_, ?_, ?_, h4, ?_⟩
    · intro j q hl
      by_cases hj : j = i
      · subst hj; simp at hl
      · simp only [upd_other _ _ _ _ hj] at hl
        by_cases hq : q = p
        · subst hq; have := h1 j q hl; rw [hpc] at this; simp [PC.holdsLock] at this; exact absurd this.symm hj
        · simp only [upd_other _ _ _ _ hq]; exact h1 j q hl
    · intro q j hh
      by_cases hq : q = p
      · subst hq; simp [PC.holdsLock] at hh
      · simp only [upd_other _ _ _ _ hq] at hh
        have := h2 q j hh
        by_cases hj : j = i
        · subst hj; rw [hmine] at this; injection this with this; exact absurd this.symm hq
        · simp only [upd_other _ _ _ _ hj]; exact this
    · intro q j hh
      by_cases hq : q = p
      · subst hq; simp [PC.owns] at hh
      · simp only [upd_other _ _ _ _ hq] at hh; exact h3 q j hh
    · intro q j hh
      by_cases hq : q = p
      · subst hq; simp [PC.ino] at hh
      · simp only [upd_other _ _ _ _ hq] at hh; exact h5 q j hh
  · -- die
    refine ⟨?_, ?_, ?_, h4, ?_⟩
    · intro j q hl
      simp only at hl
      split at hl
      · cases hl
      · rename_i hne
        by_cases hq : q = p
        · subst hq; exact absurd hl hne
        · simp only [upd_other _ _ _ _ hq]; exact h1 j q hl
    · intro q j hh
      by_cases hq : q = p
      · subst hq; simp [PC.holdsLock] at hh
      · simp only [upd_other _ _ _ _ hq] at hh
        have := h2 q j hh
        simp only
        rw [this]
        simp [hq]
    · intro q j hh
      by_cases hq : q = p
      · subst hq; simp [PC.owns] at hh
      · simp only [upd_other _ _ _ _ hq] at hh; exact h3 q j hh
    · intro q j hh
      by_cases hq : q = p
      · subst hq; simp [PC.ino] at hh
      · simp only [upd_other _ _ _ _ hq] at hh; exact h5 q j hh
  · exact ⟨h1, h2, h3, h4, h5⟩

theorem pf_run_inv (s : PF) (es : List (Nat × PAct)) (h : s.Inv) : (s.run es).Inv := by
  induction es generalizing s with
  | nil => exact h
  | cons e es ih => exact ih (s.step e.1 e.2) (pf_step_inv s e.1 e.2 h)

/-- **C20 (at most one daemon owns the pid file, however many race for it).**  In every state reachable by any
interleaving of any number of processes running `CreatePidFile` (open, lock, same-file re-check with retry, truncate),
exiting cleanly (`Remove`: unlink, then close) or dying at any step: two processes for which `CreatePidFile` has decided
the file is theirs are the same process; the file they own is the one the path names; and they hold its record lock. -/
theorem C20_at_most_one_owner (es : List (Nat × PAct)) (p q i j : Nat)
    (hp : (((({} : PF).run es).pc p).owns i) = true) (hq : (((({} : PF).run es).pc q).owns j) = true) :
    p = q ∧ i = j ∧ (({} : PF).run es).path = some i ∧ (({} : PF).run es).lock i = some p := by
  have h := pf_run_inv {} es pf_init_inv
  have h1 := h.ownPath p i hp
  have h2 := h.ownPath q j hq
  have hij : i = j := by rw [h1] at h2; injection h2
  subst hij
  have l1 := h.pcLock p i (owns_holds hp)
  have l2 := h.pcLock q i (owns_holds hq)
  rw [l1] at l2
  injection l2 with l2
  exact ⟨l2, rfl, h1, l1⟩

/-- **C20 (a holder that dies releases the file; a successor can start).**  From any reachable state in which no live
process holds a lock any more (the holder was killed, or exited cleanly, and nobody else is in the middle of an attempt),
a fresh process running `CreatePidFile` alone becomes the owner in four steps, whether the file still exists (killed
holder) or not (clean exit). -/
theorem C20_successor_starts (s : PF) (h : s.Inv) (p : Nat) (hp : s.pc p = .start)
    (hfree : ∀ i, s.lock i = none) :
    ∃ i, ((s.run [(p, .open), (p, .setlk), (p, .stat), (p, .trunc)]).pc p) = .holder i := by
  cases hpath : s.path with
  | some i =>
    refine ⟨i, ?_⟩
    simp [PF.run, PF.step, hp, hpath, hfree, upd]
  | none =>
    refine ⟨s.next, ?_⟩
    simp [PF.run, PF.step, hp, hpath, hfree, upd]

/-- dying releases every lock the process held, at whatever step it dies -/
theorem C20_death_releases (s : PF) (h : s.Inv) (p i : Nat) : (s.step p .die).lock i ≠ some p := by
  simp only [PF.step]
  split <;> simp_all

/-! ## The watcher's SIGTERM -/

/-- **C20 (a SIGTERM to the watcher is not lost and ends supervision).**  With a signal channel of capacity ≥ 1: a
SIGTERM arriving while none is pending is kept whatever the watcher is doing (spawning a worker, or waiting); while one
is pending and the watcher is in its select, taking it is enabled; and taking it forwards the signal to the current
worker and ends supervision.  -/
theorem C20_sigterm_not_lost (s : WS) (hcap : 1 ≤ s.cap) (hb : s.buf = 0) :
    (s.step .sigterm).lost = s.lost ∧ (s.step .sigterm).buf = 1 := by
  simp only [WS.step]
  have : s.phase = .selecting ∨ s.buf < s.cap := Or.inr (by omega)
  rw [if_pos this]
  simp [hb]

theorem C20_sigterm_ends_supervision (s : WS) (hsel : s.phase = .selecting) (hb : 0 < s.buf) :
    (s.step .takeSignal).phase = .exited ∧ (s.step .takeSignal).forwarded = true ∧
    ∀ es, ((s.step .takeSignal).run es).spawns = (s.step .takeSignal).spawns := by
  have hstep : s.step .takeSignal = { s with buf := s.buf - 1, forwarded := true, phase := .exited } := by
    simp only [WS.step]; rw [if_pos ⟨hsel, hb⟩]
  rw [hstep]
  refine ⟨rfl, rfl, ?_⟩
  intro es
  -- once exited no event spawns a worker
  have key : ∀ (t : WS), t.phase = .exited → ∀ es, (t.run es).spawns = t.spawns ∧ (t.run es).phase = .exited := by
    intro t ht es
    induction es generalizing t with
    | nil => exact ⟨rfl, ht⟩
    | cons e es ih =>
      have hs : (t.step e).phase = .exited ∧ (t.step e).spawns = t.spawns := by
        cases e <;> simp [WS.step, ht] <;> split <;> simp_all
      have := ih (t.step e) hs.1
      exact ⟨by simpa [WS.run, hs.2] using this.1, by simpa [WS.run] using this.2⟩
  exact (key _ rfl es).1

/-- with an unbuffered channel the signal IS lost while the watcher is busy spawning: the capacity matters -/
theorem C20_unbuffered_loses : (({ cap := 0 } : WS).run [.sigterm, .spawned]).lost = 1 ∧
    (({ cap := 0 } : WS).run [.sigterm, .spawned]).buf = 0 := by decide

example : (({ cap := 1 } : WS).run [.sigterm, .spawned, .takeSignal]).forwarded = true := by decide

/-! ## Sanity -/

-- two racers on a fresh path: exactly one gets the lock, the other fails with ErrLocked
example : (({} : PF).run [(1, .open), (2, .open), (2, .setlk), (1, .setlk), (2, .stat), (2, .trunc)]).pc 2 = .holder 0 := by decide
example : (({} : PF).run [(1, .open), (2, .open), (2, .setlk), (1, .setlk)]).pc 1 = .failed := by decide
-- the race of the source comment: B opened the old file, A removes it and exits, B locks the deleted file, notices, retries
example : (({} : PF).run [(1, .open), (1, .setlk), (1, .stat), (1, .trunc), (2, .open), (1, .remove), (1, .close),
    (2, .setlk), (2, .stat)]).pc 2 = .start := by decide

/-! ## The regenerated tie -/

/-- **C20 (the models are the current source's).**  watcher.go: the signal channel has capacity ≥ 1 and is notified of
SIGTERM; the loop spawns a worker and selects between the worker's status (respawn decision, or return) and the signal
(forward it to the worker with `worker.Process.Signal`, return).  pidfile.go: `CreatePidFile` opens with
`O_CREATE|O_WRONLY`, takes an exclusive non-blocking record lock (`F_WRLCK`, `F_SETLK`), compares `os.Stat(name)` with
`f.Stat()` by `os.SameFile`, closes and retries on a mismatch, truncates and returns; `Remove` unlinks the name before it
closes the descriptor; and nothing else in the file opens a file by name (closing any descriptor of the pid file would
drop the process's record lock on it). -/
theorem C20_sources_tied :
    Gen.Watcher.signalChanCap ≥ 1 ∧ Gen.Watcher.notified = ["syscall.SIGTERM"] ∧ Gen.Watcher.spawnInLoop = true ∧
    Gen.Watcher.onStatus = ["status.ShouldRespawn", "log.Errorf", "log.Infof", "return"] ∧
    Gen.Watcher.onSignal = ["log.Infof", "worker.Process.Signal", "return"] ∧
    Gen.Watcher.openers = ["CreatePidFile:os.OpenFile"] ∧
    Gen.Watcher.lockFacts = ["open:os.O_CREATE|os.O_WRONLY", "type:syscall.F_WRLCK", "cmd:syscall.F_SETLK"] ∧
    Gen.Watcher.createCalls = ["os.OpenFile", "return", "setWriteLock", "f.Close", "return", "os.Stat", "f.Name", "log.Debugf",
      "f.Close", "continue", "f.Stat", "f.Close", "return", "os.SameFile", "log.Debugf", "f.Close", "continue", "f.Truncate",
      "f.Close", "return", "return", "return"] ∧
    Gen.Watcher.removeCalls = ["os.Remove", "f.file.Name", "return", "return", "f.file.Close"] := by
  decide

/-- **C20 (tie: a crashed component asks for a respawn).**  The worker's crash guard reports `Respawn: true`, which
`runWorker` turns into exit status 3 (no respawn: 1) — and 3 ≥ 2 is "abnormal" for `ShouldRespawn` (`C20_respawn_table`). -/
theorem C20_crash_exit_status_tied :
    Gen.Worker.crashGuard = "Respawn:true" ∧ Gen.Worker.onError = ["setExitStatus(3)", "setExitStatus(1)"] ∧
    Gen.Respawn.shouldRespawn 3 true 0 false false = true ∧ Gen.Respawn.shouldRespawn 1 true 0 false false = false := by decide
