import NrDaemon.Model.Proc
/-! C03 — theorems (see DESIGN.md §6). -/
