import NrDaemon.Lemmas.Proc
import NrDaemon.Lemmas.Lifecycle
import NrDaemon.Props.Tied
/-!
  C03 — application lifecycle follows the collector's verdicts.
  The status classification (`Gen.Status.*`) is regenerated from `collector/client.go` on every run.
-/
open Gen.Limits

/-- **C03 (still valid iff the run is held).**  A run id presented by an agent is confirmed iff the daemon currently
holds that run. -/
theorem C03_still_valid_iff (s : PState) (r : String) (cfg : AppCfg) :
    (processAppInfo s (some r) cfg).2.1.status = .stillValid ↔ (getRun s r).isSome = true := by
  unfold processAppInfo
  cases hv : (getRun s r).isSome with
  | true => simp [hv]
  | false =>
    simp only [hv, Bool.false_eq_true, if_false]
    constructor
    · intro h
      split at h
      · next app _ =>
        cases hst : app.state <;> simp [hst] at h
      · split at h <;> simp at h
    · intro h; cases h

/-- without a run id an agent is never told "still valid" -/
theorem C03_no_id_not_valid (s : PState) (cfg : AppCfg) :
    (processAppInfo s none cfg).2.1.status ≠ .stillValid := by
  unfold processAppInfo
  simp only [Bool.false_eq_true, if_false]
  split
  · next app _ => cases hst : app.state <;> simp
  · split <;> simp

/-- **C03 (connected is reported only from the connected state, with the id of the current connect reply).** -/
theorem C03_connected_reply (s : PState) (rid : Option String) (cfg : AppCfg) (run : String)
    (h : (processAppInfo s rid cfg).2.1 = { status := .connected, run := run }) :
    ∃ app, getApp s cfg.handle = some app ∧ app.state = .connected ∧ app.runId = run := by
  unfold processAppInfo at h
  have key : ∀ (b : Bool),
      (if b = true then ((s, ({ status := .stillValid } : AppReplyM), ([] : List Req)) : PState × AppReplyM × List Req)
       else
        match getApp s cfg.handle with
        | some app =>
          let s := setApp s cfg.handle { app with lastActivity := s.now }
          let rep : AppReplyM := match app.state with
            | .connected => { status := .connected, run := app.runId }
            | .disconnected => { status := .disconnected }
            | .invalidLicense => { status := .invalidLicense }
            | _ => { status := .unknown }
          let (s, reqs) := considerConnect s cfg.handle
          (s, rep, reqs)
        | none =>
          if s.apps.length ≥ AppLimit then (s, { status := .unknown }, [])
          else
            let s := setApp s cfg.handle { cfg := cfg, lastActivity := s.now }
            let (s, reqs) := considerConnect s cfg.handle
            (s, { status := .unknown }, reqs)).2.1 = { status := .connected, run := run } →
      ∃ app, getApp s cfg.handle = some app ∧ app.state = .connected ∧ app.runId = run := by
    intro b hb
    cases b with
    | true => simp at hb
    | false =>
      simp only [Bool.false_eq_true, if_false] at hb
      split at hb
      · next app happ =>
        refine ⟨app, happ, ?_⟩
        cases hst : app.state <;> simp [hst] at hb
        exact ⟨rfl, hb⟩
      · split at hb <;> simp at hb
  exact key _ h

/-- **C03 (connect gating).**  A connect is launched only for an application in the unknown state whose last
attempt is at least the back-off (30 s, regenerated) in the past; otherwise nothing is sent. -/
theorem C03_connect_gating (s : PState) (h : String) (app : AppM) (ha : getApp s h = some app) :
    (app.state ≠ .unknown ∨ s.now - app.lastAttempt < (AppConnectAttemptBackoff : Int) → considerConnect s h = (s, [])) ∧
    (app.state = .unknown → s.now - app.lastAttempt ≥ (AppConnectAttemptBackoff : Int) →
      ∃ r, (considerConnect s h).2 = [r] ∧ r.cat = .preconnect ∧ r.license = app.cfg.license ∧ r.app = h) := by
  unfold considerConnect
  simp only [ha]
  constructor
  · intro hc
    rcases hc with hc | hc
    · have : (app.state == AState.unknown) = false := by cases hst : app.state <;> simp_all
      simp [this]
    · have : ¬ (s.now - app.lastAttempt ≥ (AppConnectAttemptBackoff : Int)) := by omega
      simp [this]
  · intro hu hb
    simp [hu, hb]

/-- **C03 (verdicts at connect).**  For an application that is waiting for a connect (state unknown): a 410 makes it
disconnected, a 401 invalid-license; every other failure (409, any other status, transport error, malformed reply)
leaves it retryable (unknown). -/
theorem C03_connect_verdicts (s : PState) (h : String) (app : AppM) (ha : getApp s h = some app)
    (hu : app.state = .unknown) (o : Outcome) :
    let st := ((getApp (connectFailed s h o) h).map (·.state))
    (o.code = 410 → st = some .disconnected) ∧ (o.code = 401 → st = some .invalidLicense) ∧
    (o.code ≠ 410 → o.code ≠ 401 → st = some .unknown) := by
  have hget : ∀ a : AppM, getApp (setApp s h a) h = some a := fun a => getApp_setApp_same s h a
  simp only [connectFailed, ha, hu, bne_self_eq_false, Bool.false_eq_true, if_false, hget, Option.map_some]
  unfold Gen.Status.isDisconnect Gen.Status.isRestartException Gen.Status.isInvalidLicense
  refine ⟨?_, ?_, ?_⟩
  · intro hc; simp [hc]
  · intro hc; simp [hc]
  · intro h1 h2
    by_cases h9 : o.code = 409 <;> simp [h1, h2, h9]

/-- **C03 (a verdict is permanent against stale connect results).**  Once an application is disconnected (410),
invalid-license (401) or connected, the result of another connect attempt that was still in flight — success or any
failure, at the preconnect or the connect stage — changes nothing: it neither revives the application, nor makes it
retryable again, nor creates a second run. -/
theorem C03_stale_attempt_ignored (s : PState) (h : String) (app : AppM) (ha : getApp s h = some app)
    (hs : app.state ≠ .unknown) :
    (∀ o, connectFailed s h o = s) ∧ (∀ coll run cfg, connectOk s h coll run cfg = s) := by
  have hb : (app.state != AState.unknown) = true := by simpa using hs
  exact ⟨fun o => by simp [connectFailed, ha, hb], fun coll run cfg => by simp [connectOk, ha, hb]⟩

/-- **C03 (data for a run the daemon does not hold is dropped).** -/
theorem C03_unknown_run_dropped (s : PState) (r : String) (t : TxnM) (h : getRun s r = none) :
    processTxn s r t = s := by
  simp [processTxn, h]

/-- **C03 (inactive applications are dropped at the next harvest).** -/
theorem C03_inactive_dropped (s : PState) (r : String) (run : RunM) (app : AppM) (mask : Nat)
    (ha : getApp s run.app = some app) (ht : s.appTimeout > 0) (hi : s.now - app.lastActivity ≥ s.appTimeout) :
    (doHarvest s r run mask).2 = [] ∧ getRun (doHarvest s r run mask).1 r = none ∧
    getApp (doHarvest s r run mask).1 run.app = none := by
  have hcond : (decide (s.appTimeout > 0) && decide (s.now - app.lastActivity ≥ s.appTimeout)) = true := by simp [ht, hi]
  simp only [doHarvest, ha, hcond, if_true]
  refine ⟨trivial, ?_, ?_⟩
  · unfold getRun delRun
    simp only
    cases hf : (s.runs.filter (·.1 != r)).find? (·.1 == r) with
    | none => rfl
    | some p =>
      have h1 := List.find?_some hf
      have h2 := List.mem_of_find?_eq_some hf
      simp only [List.mem_filter] at h2
      simp_all
  · unfold getApp delRun
    simp only
    cases hf : (s.apps.filter (·.1 != run.app)).find? (·.1 == run.app) with
    | none => rfl
    | some p =>
      have h1 := List.find?_some hf
      have h2 := List.mem_of_find?_eq_some hf
      simp only [List.mem_filter] at h2
      simp_all


/-! ## Invariants over all histories of the processor loop (`Lemmas/Lifecycle.lean`) -/

theorem runEvents_lifeInv (s : PState) (es : List PEvent) (h : LifeInv s) : LifeInv (s.runEvents es) := by
  induction es generalizing s with
  | nil => exact h
  | cons e es ih => exact ih (s.step e) (step_lifeInv s e h)

theorem lifeInv_empty : LifeInv ({} : PState) := by
  constructor <;> intro r <;> simp [runApp, getRun]

/-- **C03 (connected means: exactly one run, held; all histories).**  In every state reachable by any sequence of agent
queries, transactions, harvest triggers, replies to harvest / preconnect / connect requests (any outcome, any order, any
number in flight, stale ones included) and clock advances: every run the daemon holds belongs to an application in the
connected state, and no application has two runs. -/
theorem C03_runs_belong_to_connected (es : List PEvent) :
    let s := ({} : PState).runEvents es
    (∀ r h, runApp s r = some h → appState s h = some .connected) ∧
    (∀ r1 r2 h, runApp s r1 = some h → runApp s r2 = some h → r1 = r2) :=
  let h := runEvents_lifeInv {} es lifeInv_empty
  ⟨h.runConnected, h.oneRun⟩

/-- **C03 (a 410 or an invalid license is permanent; all continuations).**  From any reachable state in which an
application is disconnected or has an invalid license, whatever happens afterwards — agent queries, late results of
connect attempts that were still in flight (successes included), replies to harvest requests of any run with any verdict,
triggers, time — its state never changes again. -/
theorem C03_terminal_permanent (es es' : List PEvent) (k : String)
    (ht : isTerminal (appState (({} : PState).runEvents es) k) = true) :
    appState ((({} : PState).runEvents es).runEvents es') k = appState (({} : PState).runEvents es) k := by
  have hinv := runEvents_lifeInv {} es lifeInv_empty
  generalize ({} : PState).runEvents es = s at *
  induction es' generalizing s with
  | nil => rfl
  | cons e es' ih =>
    have h1 := step_terminal s e hinv k ht
    have := ih (s.step e) (by rw [h1]; exact ht) (step_lifeInv s e hinv)
    simp only [PState.runEvents, List.foldl_cons] at this ⊢
    rw [this, h1]

/-- … and no connect is ever attempted for it again, and agents are told its state -/
theorem C03_terminal_no_connect (s : PState) (k : String) (app : AppM) (ha : getApp s k = some app)
    (ht : app.state = .disconnected ∨ app.state = .invalidLicense) :
    (considerConnect s k).2 = [] := by
  unfold considerConnect
  rw [ha]
  rcases ht with h | h <;> simp [h]

/-- **C03 (tie: the connect gate is the code's).**  The condition under which the model's `considerConnect` starts a
connect attempt is `App.NeedsConnectAttempt` as translated from app.go on this run, for every state, time and last
attempt (with the regenerated back-off constant). -/
theorem C03_connect_gate_tied (st : AState) (now last : Int) :
    (st == .unknown && decide (now - last ≥ (Gen.Limits.AppConnectAttemptBackoff : Int))) =
      Gen.Decisions.needsConnectAttempt (Gen.Limits.AppConnectAttemptBackoff : Int) last now st.code :=
  tied_needsConnectAttempt st now last
