import NrDaemon.Props.Reviewed
import NrDaemon.Gen.Skeleton
import NrDaemon.Lemmas.Proc
import NrDaemon.Lemmas.Lifecycle
import NrDaemon.Props.Tied
import NrDaemon.Gen.Lifecycle
/-!
  C03 — application lifecycle follows the collector's verdicts.
  The status classification (`Gen.Status.*`) is regenerated from `collector/client.go` on every run.
-/
open Gen.Limits

/-- **C03 (still valid iff the run is held).**  A run id presented by an agent is confirmed iff the daemon currently
holds that run. -/
theorem C03_still_valid_iff (s : PState) (r : String) (cfg : AppCfg) :
    (processAppInfo s (some r) cfg).2.1.status = .stillValid ↔ (getRun s r).isSome = true := by
  unfold processAppInfo
  cases hv : (getRun s r).isSome with
  | true => simp [hv]
  | false =>
    simp only [hv, Bool.false_eq_true, if_false]
    constructor
    · intro h
      split at h
      · next app _ =>
        cases hst : app.state <;> simp [hst] at h
      · split at h <;> simp at h
    · intro h; cases h

/-- without a run id an agent is never told "still valid" -/
theorem C03_no_id_not_valid (s : PState) (cfg : AppCfg) :
    (processAppInfo s none cfg).2.1.status ≠ .stillValid := by
  unfold processAppInfo
  simp only [Bool.false_eq_true, if_false]
  split
  · next app _ => cases hst : app.state <;> simp
  · split <;> simp

/-- **C03 (connected is reported only from the connected state, with the id of the current connect reply).** -/
theorem C03_connected_reply (s : PState) (rid : Option String) (cfg : AppCfg) (run : String)
    (h : (processAppInfo s rid cfg).2.1 = { status := .connected, run := run }) :
    ∃ app, getApp s cfg.handle = some app ∧ app.state = .connected ∧ app.runId = run := by
  unfold processAppInfo at h
  have key : ∀ (b : Bool),
      (if b = true then ((s, ({ status := .stillValid } : AppReplyM), ([] : List Req)) : PState × AppReplyM × List Req)
       else
        match getApp s cfg.handle with
        | some app =>
          let s := setApp s cfg.handle { app with lastActivity := s.now }
          let rep : AppReplyM := match app.state with
            | .connected => { status := .connected, run := app.runId }
            | .disconnected => { status := .disconnected }
            | .invalidLicense => { status := .invalidLicense }
            | _ => { status := .unknown }
          let (s, reqs) := considerConnect s cfg.handle
          (s, rep, reqs)
        | none =>
          if s.apps.length ≥ AppLimit then (s, { status := .unknown }, [])
          else
            let s := setApp s cfg.handle { cfg := cfg, lastActivity := s.now }
            let (s, reqs) := considerConnect s cfg.handle
            (s, { status := .unknown }, reqs)).2.1 = { status := .connected, run := run } →
      ∃ app, getApp s cfg.handle = some app ∧ app.state = .connected ∧ app.runId = run := by
    intro b hb
    cases b with
    | true => simp at hb
    | false =>
      simp only [Bool.false_eq_true, if_false] at hb
      split at hb
      · next app happ =>
        refine ⟨app, happ, ?_⟩
        cases hst : app.state <;> simp [hst] at hb
        exact ⟨rfl, hb⟩
      · split at hb <;> simp at hb
  exact key _ h

/-- **C03 (connect gating).**  A connect is launched only for an application in the unknown state whose last
attempt is at least the back-off (30 s, regenerated) in the past; otherwise nothing is sent. -/
theorem C03_connect_gating (s : PState) (h : String) (app : AppM) (ha : getApp s h = some app) :
    (app.state ≠ .unknown ∨ s.now - app.lastAttempt < (AppConnectAttemptBackoff : Int) → considerConnect s h = (s, [])) ∧
    (app.state = .unknown → s.now - app.lastAttempt ≥ (AppConnectAttemptBackoff : Int) →
      ∃ r, (considerConnect s h).2 = [r] ∧ r.cat = .preconnect ∧ r.license = app.cfg.license ∧ r.app = h) := by
  unfold considerConnect
  simp only [ha]
  constructor
  · intro hc
    rcases hc with hc | hc
    · have : (app.state == AState.unknown) = false := by cases hst : app.state <;> simp_all
      simp [this]
    · have : ¬ (s.now - app.lastAttempt ≥ (AppConnectAttemptBackoff : Int)) := by omega
      simp [this]
  · intro hu hb
    simp [hu, hb]

/-- **C03 (verdicts at connect).**  For an application that is waiting for a connect (state unknown): a 410 makes it
disconnected, a 401 invalid-license; every other failure (409, any other status, transport error, malformed reply)
leaves it retryable (unknown). -/
theorem C03_connect_verdicts (s : PState) (h : String) (app : AppM) (ha : getApp s h = some app)
    (hu : app.state = .unknown) (o : Outcome) :
    let st := ((getApp (connectFailed s h o) h).map (·.state))
    (o.code = 410 → st = some .disconnected) ∧ (o.code = 401 → st = some .invalidLicense) ∧
    (o.code ≠ 410 → o.code ≠ 401 → st = some .unknown) := by
  have hget : ∀ a : AppM, getApp (setApp s h a) h = some a := fun a => getApp_setApp_same s h a
  simp only [connectFailed, ha, hu, bne_self_eq_false, Bool.false_eq_true, if_false, hget, Option.map_some]
  unfold Gen.Status.isDisconnect Gen.Status.isRestartException Gen.Status.isInvalidLicense
  refine ⟨?_, ?_, ?_⟩
  · intro hc; simp [hc]
  · intro hc; simp [hc]
  · intro h1 h2
    by_cases h9 : o.code = 409 <;> simp [h1, h2, h9]

/-- **C03 (a verdict is permanent against stale connect results).**  Once an application is disconnected (410),
invalid-license (401) or connected, the result of another connect attempt that was still in flight — success or any
failure, at the preconnect or the connect stage — changes nothing: it neither revives the application, nor makes it
retryable again, nor creates a second run. -/
theorem C03_stale_attempt_ignored (s : PState) (h : String) (app : AppM) (ha : getApp s h = some app)
    (hs : app.state ≠ .unknown) :
    (∀ o, connectFailed s h o = s) ∧ (∀ coll run cfg, connectOk s h coll run cfg = s) := by
  have hb : (app.state != AState.unknown) = true := by simpa using hs
  exact ⟨fun o => by simp [connectFailed, ha, hb], fun coll run cfg => by simp [connectOk, ha, hb]⟩

/-- **C03 (data for a run the daemon does not hold is dropped).** -/
theorem C03_unknown_run_dropped (s : PState) (r : String) (t : TxnM) (h : getRun s r = none) :
    processTxn s r t = s := by
  simp [processTxn, h]

/-- **C03 (inactive applications are dropped at the next harvest).** -/
theorem C03_inactive_dropped (s : PState) (r : String) (run : RunM) (app : AppM) (mask : Nat)
    (ha : getApp s run.app = some app) (ht : s.appTimeout > 0) (hi : s.now - app.lastActivity ≥ s.appTimeout) :
    (doHarvest s r run mask).2 = [] ∧ getRun (doHarvest s r run mask).1 r = none ∧
    getApp (doHarvest s r run mask).1 run.app = none := by
  have hcond : (decide (s.appTimeout > 0) && decide (s.now - app.lastActivity ≥ s.appTimeout)) = true := by simp [ht, hi]
  simp only [doHarvest, ha, hcond, if_true]
  refine ⟨trivial, ?_, ?_⟩
  · unfold getRun delRun
    simp only
    cases hf : (s.runs.filter (·.1 != r)).find? (·.1 == r) with
    | none => rfl
    | some p =>
      have h1 := List.find?_some hf
      have h2 := List.mem_of_find?_eq_some hf
      simp only [List.mem_filter] at h2
      simp_all
  · unfold getApp delRun
    simp only
    cases hf : (s.apps.filter (·.1 != run.app)).find? (·.1 == run.app) with
    | none => rfl
    | some p =>
      have h1 := List.find?_some hf
      have h2 := List.mem_of_find?_eq_some hf
      simp only [List.mem_filter] at h2
      simp_all


/-! ## Invariants over all histories of the processor loop (`Lemmas/Lifecycle.lean`) -/

theorem runEvents_lifeInv (s : PState) (es : List PEvent) (h : LifeInv s) : LifeInv (s.runEvents es) := by
  induction es generalizing s with
  | nil => exact h
  | cons e es ih => exact ih (s.step e) (step_lifeInv s e h)

theorem lifeInv_empty : LifeInv ({} : PState) := by
  constructor <;> intro r <;> simp [runApp, getRun]

/-- **C03 (connected means: exactly one run, held; all histories).**  In every state reachable by any sequence of agent
queries, transactions, harvest triggers, replies to harvest / preconnect / connect requests (any outcome, any order, any
number in flight, stale ones included) and clock advances: every run the daemon holds belongs to an application in the
connected state, and no application has two runs. -/
theorem C03_runs_belong_to_connected (es : List PEvent) :
    let s := ({} : PState).runEvents es
    (∀ r h, runApp s r = some h → appState s h = some .connected) ∧
    (∀ r1 r2 h, runApp s r1 = some h → runApp s r2 = some h → r1 = r2) :=
  let h := runEvents_lifeInv {} es lifeInv_empty
  ⟨h.runConnected, h.oneRun⟩

/-- **C03 (a 410 or an invalid license is permanent; all continuations).**  From any reachable state in which an
application is disconnected or has an invalid license, whatever happens afterwards — agent queries, late results of
connect attempts that were still in flight (successes included), replies to harvest requests of any run with any verdict,
triggers, time — its state never changes again. -/
theorem C03_terminal_permanent (es es' : List PEvent) (k : String)
    (ht : isTerminal (appState (({} : PState).runEvents es) k) = true) :
    appState ((({} : PState).runEvents es).runEvents es') k = appState (({} : PState).runEvents es) k := by
  have hinv := runEvents_lifeInv {} es lifeInv_empty
  generalize ({} : PState).runEvents es = s at *
  induction es' generalizing s with
  | nil => rfl
  | cons e es' ih =>
    have h1 := step_terminal s e hinv k ht
    have := ih (s.step e) (by rw [h1]; exact ht) (step_lifeInv s e hinv)
    simp only [PState.runEvents, List.foldl_cons] at this ⊢
    rw [this, h1]

/-- … and no connect is ever attempted for it again, and agents are told its state -/
theorem C03_terminal_no_connect (s : PState) (k : String) (app : AppM) (ha : getApp s k = some app)
    (ht : app.state = .disconnected ∨ app.state = .invalidLicense) :
    (considerConnect s k).2 = [] := by
  unfold considerConnect
  rw [ha]
  rcases ht with h | h <;> simp [h]

/-- **C03 (tie: the connect gate is the code's).**  The condition under which the model's `considerConnect` starts a
connect attempt is `App.NeedsConnectAttempt` as translated from app.go on this run, for every state, time and last
attempt (with the regenerated back-off constant). -/
theorem C03_connect_gate_tied (st : AState) (now last : Int) :
    (st == .unknown && decide (now - last ≥ (Gen.Limits.AppConnectAttemptBackoff : Int))) =
      Gen.Decisions.needsConnectAttempt (Gen.Limits.AppConnectAttemptBackoff : Int) last now st.code :=
  tied_needsConnectAttempt st now last

/-- **C03 (every other connect failure is retried after the back-off).**  An application waiting for a connect whose
attempt fails with anything but 410 / 401 (409, another status, a transport error, a malformed reply) is still waiting
afterwards, with the same back-off window: the first agent query at or after the end of that window launches a fresh
preconnect for it — the failure is not the end of the application. -/
theorem C03_retried_after_backoff (s : PState) (cfg : AppCfg) (app : AppM) (o : Outcome)
    (ha : getApp s cfg.handle = some app) (hu : app.state = .unknown)
    (h410 : o.code ≠ 410) (h401 : o.code ≠ 401) (d : Int)
    (hb : s.now + d - app.lastAttempt ≥ (AppConnectAttemptBackoff : Int)) :
    let s1 := connectFailed s cfg.handle o
    let s2 : PState := { s1 with now := s1.now + d }
    ∃ r ∈ (processAppInfo s2 none cfg).2.2, r.cat = .preconnect ∧ r.app = cfg.handle ∧ r.license = app.cfg.license := by
  intro s1 s2
  -- after the failure the application is still waiting for a connect, with the same last attempt
  have hget : ∀ a : AppM, getApp (setApp s cfg.handle a) cfg.handle = some a := fun a => getApp_setApp_same s cfg.handle a
  have hv := (C03_connect_verdicts s cfg.handle app ha hu o).2.2 h410 h401
  have hs1 : ∃ app1, getApp s1 cfg.handle = some app1 ∧ app1.state = .unknown ∧ app1.lastAttempt = app.lastAttempt ∧ app1.cfg = app.cfg := by
    simp only [s1, connectFailed, ha, hu, bne_self_eq_false, Bool.false_eq_true, if_false]
    refine ⟨_, hget _, ?_, rfl, rfl⟩
    simp only [connectFailed, ha, hu, bne_self_eq_false, Bool.false_eq_true, if_false, hget, Option.map_some] at hv
    simpa using hv
  obtain ⟨app1, hg1, hst1, hla1, hcfg1⟩ := hs1
  have hnow : s1.now = s.now := by
    simp only [s1, connectFailed, ha, hu, bne_self_eq_false, Bool.false_eq_true, if_false]
    rfl
  have hg2 : getApp s2 cfg.handle = some app1 := hg1
  -- the agent's query reaches considerConnect with the application still unknown and the back-off expired
  simp only [processAppInfo, hg2]
  have hget2 : ∀ a : AppM, getApp (setApp s2 cfg.handle a) cfg.handle = some a := fun a => getApp_setApp_same s2 cfg.handle a
  have hgate := (C03_connect_gating (setApp s2 cfg.handle { app1 with lastActivity := s2.now }) cfg.handle
    { app1 with lastActivity := s2.now } (hget2 _)).2 hst1 (by
      show (setApp s2 cfg.handle _).now - app1.lastAttempt ≥ _
      have : (setApp s2 cfg.handle { app1 with lastActivity := s2.now }).now = s1.now + d := rfl
      rw [this, hla1, hnow]; exact hb)
  obtain ⟨r, hr, hc, hl, hap⟩ := hgate
  refine ⟨r, ?_, hc, hap, by rw [hl, hcfg1]⟩
  simp only [hr]
  simp

/-- **C03 (a restart answer during harvest invalidates the run and leads to a fresh connect).**  When a harvest request of
a connected application is answered with 401 or 409: the run is no longer held (agents presenting it are not told "still
valid", data under it is dropped — `C03_still_valid_iff`, `C03_unknown_run_dropped`), the application goes back to waiting
for a connect, and the only requests this can emit are preconnects for that application (at once if the back-off allows,
otherwise at the next agent query after it: `C03_retried_after_backoff`). -/
theorem C03_restart_during_harvest (s : PState) (req : Req) (run : RunM) (app : AppM) (o : Outcome)
    (hr : getRun s req.run = some run) (ha : getApp s run.app = some app) (hst : app.state = .connected)
    (ho : o.code = 401 ∨ o.code = 409) :
    let s' := (harvestVerdict s req o).1
    getRun s' req.run = none ∧ appState s' run.app = some .unknown ∧
    (∀ r ∈ (harvestVerdict s req o).2, r.cat = .preconnect ∧ r.app = run.app) := by
  intro s'
  have hsave : Gen.Status.shouldSaveHarvestData o.code = false := by
    rcases ho with h | h <;> simp [Gen.Status.shouldSaveHarvestData, h]
  have hdisc : Gen.Status.isDisconnect o.code false = false := by
    rcases ho with h | h <;> simp [Gen.Status.isDisconnect, h]
  have hrest : Gen.Status.isRestartException o.code = true := by
    rcases ho with h | h <;> simp [Gen.Status.isRestartException, h]
  have hne : (app.state == AState.disconnected) = false := by simp [hst]
  have hv : harvestVerdict s req o =
      considerConnect (shutdownRun (setApp (setRun s req.run run) run.app { app with state := .unknown }) req.run) run.app := by
    unfold harvestVerdict
    simp only [hr, hsave, Bool.false_eq_true, if_false]
    have hga : getApp (setRun s req.run run) run.app = some app := by rw [getApp_setRun]; exact ha
    simp only [hga, hdisc, hne, Bool.or_self, Bool.false_eq_true, if_false, hrest, Bool.true_or, if_true]
  have hfr := considerConnect_frame (shutdownRun (setApp (setRun s req.run run) run.app { app with state := .unknown }) req.run) run.app
  refine ⟨?_, ?_, ?_⟩
  · -- the run is gone
    have h1 : runApp s' req.run = none := by
      show runApp (harvestVerdict s req o).1 req.run = none
      rw [hv, hfr.2]
      unfold runApp shutdownRun
      rw [getRun_delRun]; simp
    unfold runApp at h1
    cases hg : getRun s' req.run with
    | none => rfl
    | some x => rw [hg] at h1; cases h1
  · show appState (harvestVerdict s req o).1 run.app = some .unknown
    rw [hv, hfr.1]
    unfold shutdownRun
    rw [appState_delRun, appState_setApp]
    simp
  · intro r hrm
    rw [hv] at hrm
    unfold considerConnect at hrm
    split at hrm
    · simp at hrm
    · split at hrm
      · simp only [List.mem_singleton] at hrm
        subst hrm
        exact ⟨rfl, rfl⟩
      · simp at hrm

/-! ## The two functions the lifecycle model transcribes, as they are in processor.go today (`Gen.Lifecycle`) -/

/-- `processHarvestError`: unknown run → nothing; save the data iff the status says so; 410 (or an application already
disconnected) → disconnected, run shut down; 401/409 (or an application in restart) → unknown, run shut down, connect
considered — the structure of `harvestVerdict` -/
def reviewedHarvestError : List String := [
  "if !ok {",
  "return",
  "}",
  "h.Harvest.IncrementHttpErrors(…)",
  "if d.Reply.ShouldSaveHarvestData() {",
  "d.data.FailedHarvest(…)",
  "}",
  "switch {",
  "case d.Reply.IsDisconnect()||app.state==AppStateDisconnected:",
  "app.state = AppStateDisconnected",
  "p.shutdownAppHarvest(…)",
  "case d.Reply.IsRestartException()||app.state==AppStateRestart:",
  "app.state = AppStateUnknown",
  "p.shutdownAppHarvest(…)",
  "p.considerConnect(…)",
  "}"
]

/-- `processConnectAttempt`: unknown application or superseded attempt → nothing; 410 → disconnected; 401 → invalid
license; 409 → unknown; any other error → unknown; otherwise connected, the log limit negotiated BEFORE the run and its first
harvest are created — the structure of `connectFailed` / `connectOk` -/
def reviewedConnectAttempt : List String := [
  "if nil==app {",
  "return",
  "}",
  "if AppStateUnknown!=app.state {",
  "return",
  "}",
  "app.RawConnectReply = rep.RawReply.Body",
  "if rep.RawReply.IsDisconnect() {",
  "app.state = AppStateDisconnected",
  "return",
  "}",
  "else if rep.RawReply.IsRestartException() {",
  "if rep.RawReply.IsInvalidLicense() {",
  "app.state = AppStateInvalidLicense",
  "}",
  "else {",
  "app.state = AppStateUnknown",
  "}",
  "return",
  "}",
  "else if nil!=rep.Err {",
  "app.state = AppStateUnknown",
  "return",
  "}",
  "app.connectReply = rep.Reply",
  "app.state = AppStateConnected",
  "app.collector = rep.Collector",
  "app.RawSecurityPolicies = rep.RawSecurityPolicies",
  "app.connectTime = time.Now(…)",
  "app.harvestFrequency = time.Duration(app.connectReply.SamplingFrequency)*time.Second",
  "app.samplingTarget = uint16(…)",
  "processLogEventLimits(…)",
  "if 0==app.samplingTarget {",
  "app.samplingTarget = 10",
  "}",
  "if 0==app.harvestFrequency {",
  "app.harvestFrequency = 60*time.Second",
  "}",
  "app.HarvestTrigger = getHarvestTrigger(…)",
  "p.harvests[*app.connectReply.ID] = NewAppHarvest(…)"
]

/-- **C03 (tie: the lifecycle decisions are the code's).**  The decision skeletons regenerated from processor.go on this run
are the ones the model was transcribed from. -/
theorem C03_lifecycle_source_tied :
    Gen.Lifecycle.processHarvestError = reviewedHarvestError ∧ Gen.Lifecycle.processConnectAttempt = reviewedConnectAttempt :=
  ⟨rfl, rfl⟩


/-! ## Ties to the current source: the functions transcribed by the model have not changed since they were reviewed (`Props/Reviewed.lean`) -/

/-- **C03 (tie).**  `considerConnect`: state and back-off gate, time stamp, one attempt in its own goroutine. -/
theorem C03_consider_connect_source_tied : Gen.Skeleton.considerConnect = Reviewed.considerConnect := rfl
