import NrDaemon.Props.Reviewed
import NrDaemon.Gen.Skeleton
import NrDaemon.Gen.Schema
import NrDaemon.Gen.Limits
/-!
  C15 — agent and daemon agree on the wire schema and shared limits.

  `Gen.Schema` is regenerated on every run from `protocol/flatbuffers/protocol.fbs`, from the generated Go
  accessors/builders in `daemon/internal/newrelic/protocol/*.go`, and from the agent's hand-kept enums in
  `axiom/nr_commands_private.h` / limits in `axiom/nr_limits.h`, `axiom/nr_app.h`.  The finite tables are compared by
  `decide`, so these are proofs about the three renderings as they are in the tree now.
-/
open Gen.Schema

def idx {α : Type} (l : List α) : List (α × Nat) := l.zip (List.range l.length)

/-- **C15 (daemon accessors).**  For every table, the Go accessor of the i-th schema field reads vtable offset
`4 + 2·i` (and is named after it). -/
theorem C15_go_accessors :
    goAccessors = fbsTablesCamel.map (fun t => (t.1, (idx t.2).map (fun f => (f.1, 4 + 2 * f.2)))) ∧
    fbsTablesCamel.map (fun t => (t.1, t.2.length)) = fbsTables.map (fun t => (t.1, t.2.length)) := by decide

/-- **C15 (daemon builders).**  For every table, the Go builder `Add<Field>` writes slot `i` and `Start` reserves
exactly as many slots as the schema has fields. -/
theorem C15_go_builders :
    goSlots = fbsTablesCamel.map (fun t => (t.1, (idx t.2).map (fun f => (f.1, f.2)))) ∧
    goStart = fbsTables.map (fun t => (t.1, t.2.length)) := by decide

/-- **C15 (struct layout).**  `MetricData` is laid out at 0, 8, …, 40, 48, 49 in the schema, in the daemon's
accessors and in the agent's offsets. -/
theorem C15_struct_layout :
    goStructs = fbsStructsCamel ∧ fbsStructsCamel.map (fun s => (s.1, s.2.map (·.2))) = fbsStructs.map (fun s => (s.1, s.2.map (·.2))) ∧
    fbsStructs = [("MetricData", [("count", 0), ("total", 8), ("exclusive", 16), ("min", 24), ("max", 32),
                                   ("sum_squares", 40), ("scoped", 48), ("forced", 49)])] ∧
    [("METRIC_DATA_VOFFSET_COUNT", 0), ("METRIC_DATA_VOFFSET_TOTAL", 8), ("METRIC_DATA_VOFFSET_EXCLUSIVE", 16),
     ("METRIC_DATA_VOFFSET_MIN", 24), ("METRIC_DATA_VOFFSET_MAX", 32), ("METRIC_DATA_VOFFSET_SOS", 40),
     ("METRIC_DATA_VOFFSET_SCOPED", 48), ("METRIC_DATA_VOFFSET_FORCED", 49)] ∈ cEnums := by decide

/-- the agent's name for each schema field, in schema order (hand-written expectation: the C names are not derivable
mechanically, e.g. `APP_DISPLAY_HOST`, `TRANSACTION_FIELD_LOG_LABELS`) -/
def cFieldNames : List (String × List String × String) := [
  ("Message", ["MESSAGE_FIELD_AGENT_RUN_ID", "MESSAGE_FIELD_DATA_TYPE", "MESSAGE_FIELD_DATA"], "MESSAGE_NUM_FIELDS"),
  ("App", ["APP_FIELD_LICENSE", "APP_FIELD_APPNAME", "APP_FIELD_AGENT_LANGUAGE", "APP_FIELD_AGENT_VERSION",
           "APP_FIELD_HIGH_SECURITY", "APP_FIELD_REDIRECT_COLLECTOR", "APP_FIELD_ENVIRONMENT", "APP_FIELD_SETTINGS",
           "APP_FIELD_LABELS", "APP_DISPLAY_HOST", "APP_SECURITY_POLICY_TOKEN", "APP_SUPPORTED_SECURITY_POLICIES", "APP_HOST",
           "APP_TRACE_OBSERVER_HOST", "APP_TRACE_OBSERVER_PORT", "APP_SPAN_QUEUE_SIZE", "APP_SPAN_EVENTS_MAX_SAMPLES_STORED",
           "APP_METADATA", "APP_LOG_EVENTS_MAX_SAMPLES_STORED", "APP_CUSTOM_EVENTS_MAX_SAMPLES_STORED", "APP_DOCKER_ID"],
   "APP_NUM_FIELDS"),
  ("AppReply", ["APP_REPLY_FIELD_STATUS", "APP_REPLY_FIELD_CONNECT_REPLY", "APP_REPLY_FIELD_SECURITY_POLICIES",
                "APP_REPLY_FIELD_CONNECT_TIMESTAMP", "APP_REPLY_FIELD_HARVEST_FREQUENCY", "APP_REPLY_FIELD_SAMPLING_TARGET"],
   "APP_REPLY_NUM_FIELDS"),
  ("Transaction", ["TRANSACTION_FIELD_NAME", "TRANSACTION_FIELD_URI", "TRANSACTION_FIELD_SYNTHETICS_RESOURCE_ID",
                   "TRANSACTION_FIELD_PID", "TRANSACTION_FIELD_TXN_EVENT", "TRANSACTION_FIELD_METRICS", "TRANSACTION_FIELD_ERRORS",
                   "TRANSACTION_FIELD_SLOW_SQLS", "TRANSACTION_FIELD_CUSTOM_EVENTS", "TRANSACTION_FIELD_TRACE",
                   "TRANSACTION_FIELD_ERROR_EVENTS", "TRANSACTION_FIELD_SAMPLING_PRIORITY", "TRANSACTION_FIELD_SPAN_EVENTS",
                   "TRANSACTION_FIELD_LOG_EVENTS", "TRANSACTION_FIELD_PHP_PACKAGES", "TRANSACTION_FIELD_LOG_LABELS"],
   "TRANSACTION_NUM_FIELDS"),
  ("Event", ["EVENT_FIELD_DATA"], "EVENT_NUM_FIELDS"),
  ("Error", ["ERROR_FIELD_PRIORITY", "ERROR_FIELD_DATA"], "ERROR_NUM_FIELDS"),
  ("Metric", ["METRIC_FIELD_NAME", "METRIC_FIELD_DATA"], "METRIC_NUM_FIELDS"),
  ("SlowSQL", ["SLOWSQL_FIELD_ID", "SLOWSQL_FIELD_COUNT", "SLOWSQL_FIELD_TOTAL_MICROS", "SLOWSQL_FIELD_MIN_MICROS",
               "SLOWSQL_FIELD_MAX_MICROS", "SLOWSQL_FIELD_METRIC", "SLOWSQL_FIELD_QUERY", "SLOWSQL_FIELD_PARAMS"], "SLOWSQL_NUM_FIELDS"),
  ("Trace", ["TRACE_FIELD_TIMESTAMP", "TRACE_FIELD_DURATION", "TRACE_FIELD_GUID", "TRACE_FIELD_FORCE_PERSIST", "TRACE_FIELD_DATA"],
   "TRACE_NUM_FIELDS"),
  ("SpanBatch", ["SPAN_BATCH_FIELD_COUNT", "SPAN_BATCH_FIELD_ENCODED"], "SPAN_BATCH_NUM_FIELDS")]

def fieldCount (t : String) : Nat := ((fbsTables.find? (·.1 == t)).map (·.2.length)).getD 0

/-- **C15 (agent field tables).**  For every table of the schema, the agent's enum block numbers the fields
0, 1, 2, … in schema order and its `*_NUM_FIELDS` equals the number of fields in the schema; every schema table is
covered. -/
theorem C15_c_enums :
    cFieldNames.all (fun e =>
      cEnums.contains ((idx e.2.1) ++ [(e.2.2, fieldCount e.1)]) && e.2.1.length == fieldCount e.1) = true ∧
    (fbsTables.map (·.1)).all (fun t => cFieldNames.any (·.1 == t)) = true := by decide

/-- **C15 (union tags and enum values).**  Union member k has tag k+1 in the schema order, in the daemon's constants
and in the agent's; `AppStatus` has the same values on all three sides. -/
theorem C15_union_and_enum_values :
    fbsUnions = [("MessageBody", ["App", "AppReply", "Transaction", "SpanBatch"])] ∧
    [("MessageBodyNONE", 0), ("MessageBodyApp", 1), ("MessageBodyAppReply", 2), ("MessageBodyTransaction", 3),
     ("MessageBodySpanBatch", 4)].all (fun c => goConsts.contains c) = true ∧
    cEnums.contains [("MESSAGE_BODY_NONE", 0), ("MESSAGE_BODY_APP", 1), ("MESSAGE_BODY_APP_REPLY", 2),
                     ("MESSAGE_BODY_TXN", 3), ("MESSAGE_BODY_SPAN_BATCH", 4)] = true ∧
    fbsEnums = [("AppStatus", [("Unknown", 0), ("Disconnected", 1), ("InvalidLicense", 2), ("Connected", 3), ("StillValid", 4)])] ∧
    (fbsEnums.flatMap (fun e => e.2.map (fun m => (e.1 ++ m.1, m.2)))).all (fun c => goConsts.contains c) = true ∧
    cEnums.contains [("APP_STATUS_UNKNOWN", 0), ("APP_STATUS_DISCONNECTED", 1), ("APP_STATUS_INVALID_LICENSE", 2),
                     ("APP_STATUS_CONNECTED", 3), ("APP_STATUS_STILL_VALID", 4)] = true := by decide

/-- **C15 (shared limits).**  The limits documented as shared between agent and daemon have equal values. -/
theorem C15_shared_limits :
    cDefines.contains ("NR_MAX_ANALYTIC_EVENTS", Gen.Limits.MaxTxnEvents) = true ∧
    cDefines.contains ("NR_MAX_CUSTOM_EVENTS_MAX_SAMPLES_STORED", Gen.Limits.MaxCustomMaxEvents) = true ∧
    cDefines.contains ("NR_MAX_SPAN_EVENTS_MAX_SAMPLES_STORED", Gen.Limits.MaxSpanMaxEvents) = true ∧
    cDefines.contains ("NR_MAX_LOG_EVENTS_MAX_SAMPLES_STORED", Gen.Limits.MaxLogMaxEvents) = true ∧
    cDefines.contains ("NR_MAX_ERRORS", Gen.Limits.MaxErrors) = true ∧
    cDefines.contains ("NR_APP_LIMIT", Gen.Limits.AppLimit) = true := by decide


/-! ## Ties to the current source: the functions transcribed by the model have not changed since they were reviewed (`Props/Reviewed.lean`) -/

/-- **C15 (tie).**  `aggregateMetrics`: each metric of the vector is decoded with its own forced and scoped flags. -/
theorem C15_aggregate_metrics_source_tied : Gen.Skeleton.aggregateMetrics = Reviewed.aggregateMetrics := rfl
