import NrDaemon.Gen.Decisions
import NrDaemon.Gen.Negotiation
import NrDaemon.Model.Limits
import NrDaemon.Model.Proc
import NrDaemon.Model.Trigger
import NrDaemon.Model.Metrics
import NrDaemon.Model.Reservoir
/-!
  The hand-written model agrees, for ALL inputs, with the decision functions translated from the current Go source
  (`Gen/Decisions.lean`, regenerated on every run).  A change to one of those Go functions changes the generated
  definition, and the corresponding theorem stops checking unless the behaviour is the same.  The theorems are used by
  the property modules (C03, C05, C06, C07, C12), where they are counted as obligations.
-/
open Gen.Limits

/-- the numeric value of an application state (`AppState` is an `iota` enumeration in app.go) -/
def AState.code : AState → Int
  | .unknown => 0 | .connected => 1 | .disconnected => 2 | .restart => 3 | .invalidLicense => 4

/-- `considerConnect`'s gate is `App.NeedsConnectAttempt` as written in app.go today -/
theorem tied_needsConnectAttempt (st : AState) (now last : Int) :
    (st == .unknown && decide (now - last ≥ (AppConnectAttemptBackoff : Int))) =
      Gen.Decisions.needsConnectAttempt (AppConnectAttemptBackoff : Int) last now st.code := by
  cases st <;> simp [Gen.Decisions.needsConnectAttempt, AState.code] <;> rfl

theorem natNeCast (a b : Nat) : decide ((a : Int) ≠ (b : Int)) = !(a == b) := by
  by_cases h : a = b
  · simp [h]
  · have : (a : Int) ≠ (b : Int) := fun e => h (Int.ofNat_inj.mp e)
    simp [h, this]

theorem natEqCast (a b : Nat) : decide ((a : Int) = (b : Int)) = (a == b) := by
  by_cases h : a = b
  · simp [h]
  · have : (a : Int) ≠ (b : Int) := fun e => h (Int.ofNat_inj.mp e)
    simp [h, this]

/-- the model's `isHarvestAll` is `(*ConnectReply).isHarvestAll` as written in harvest_trigger.go today (non-nil reply) -/
theorem tied_isHarvestAll (n : Negotiated) :
    isHarvestAll n =
      Gen.Decisions.isHarvestAll (n.cfgs.txn.period : Int) (n.cfgs.custom.period : Int) (n.cfgs.err.period : Int)
        (n.cfgs.log.period : Int) (n.cfgs.span.period : Int) (n.reportPeriod : Int) true := by
  have hc : decide ((n.reportPeriod : Int) = 60000000000) = (n.reportPeriod == 60000000000) :=
    natEqCast n.reportPeriod 60000000000
  simp only [isHarvestAll, comparedCats, catPeriod, Gen.Decisions.isHarvestAll, List.all_cons, List.all_nil,
    Bool.and_true, Bool.not_true, Bool.false_eq_true, if_false, DefaultReportPeriod, natNeCast, hc]
  cases (n.cfgs.err.period == n.reportPeriod) <;> cases (n.cfgs.txn.period == n.reportPeriod) <;>
  cases (n.cfgs.custom.period == n.reportPeriod) <;> cases (n.cfgs.span.period == n.reportPeriod) <;>
  cases (n.cfgs.log.period == n.reportPeriod) <;> cases (n.reportPeriod == 60000000000) <;> rfl

/-- a nil reply means "all at once" -/
theorem tied_isHarvestAll_nil (a b c d e f : Int) : Gen.Decisions.isHarvestAll a b c d e f false = true := by
  simp [Gen.Decisions.isHarvestAll]

/-- the capacity test of the metric table is `MetricTable.full` -/
theorem tied_tableFull (t : MTable) :
    decide (t.count ≥ t.max) = Gen.Decisions.tableFull (t.count : Int) (t.max : Int) := by
  simp [Gen.Decisions.tableFull]

/-- the heap orders are the `Less` methods / `IsLowerPriority` (keys compared with `<`) -/
theorem tied_less (p q : Int) :
    Gen.Decisions.errorLess p q = decide (p < q) ∧ Gen.Decisions.traceLess p q = decide (p < q) ∧
    Gen.Decisions.isLowerPriority p q = decide (p < q) := ⟨rfl, rfl, rfl⟩

def MData.toGen (d : MData) : Gen.Decisions.MetricData :=
  { countSatisfied := d.c, totalTolerated := d.t, exclusiveFailed := d.e, min := d.mn, max := d.mx, sumSquares := d.sq }

/-- the model's `MData.agg` is `metricData.aggregate` as written in metrics.go today -/
theorem tied_aggregate (d s : MData) : Gen.Decisions.aggregate d.toGen s.toGen = (d.agg s).toGen := by
  simp only [Gen.Decisions.aggregate, MData.toGen, MData.agg]
  by_cases h1 : s.mn < d.mn <;> by_cases h2 : s.mx > d.mx <;> simp [h1, h2]

/-! ### limit negotiation (`Gen/Negotiation.lean`, translated by the symbolic executor of the extractor) -/

/-- the model's `getEventConfig` is the code's: same error condition, same limit, same period -/
theorem tied_getEventConfig (raw : Option Int) (cr dl dr : Nat) :
    match getEventConfig raw cr dl dr with
    | none => (Gen.Negotiation.getEventConfig cr dl dr (raw.getD 0) raw.isSome).2.2 = true
    | some c => Gen.Negotiation.getEventConfig cr dl dr (raw.getD 0) raw.isSome = (c.limit, (c.period : Int), false) := by
  cases raw with
  | none => simp [getEventConfig, Gen.Negotiation.getEventConfig]
  | some l =>
    simp only [getEventConfig, Gen.Negotiation.getEventConfig, Option.getD_some, Option.isSome_some, Bool.not_true,
      Bool.false_eq_true, if_false]
    by_cases h1 : l < 0
    · simp [h1]
    · by_cases h2 : l > (dl : Int) <;> simp [h1, h2]

/-- the model's `newHarvestLimits` is `NewHarvestLimits` (agent limits present), and without agent limits the maxima -/
theorem tied_newHarvestLimits (span log custom : Int) :
    Gen.Negotiation.newHarvestLimits custom log span true =
      ((newHarvestLimits span log custom).err.limit, (newHarvestLimits span log custom).txn.limit,
       (newHarvestLimits span log custom).custom.limit, (newHarvestLimits span log custom).span.limit,
       (newHarvestLimits span log custom).log.limit) ∧
    Gen.Negotiation.newHarvestLimits custom log span false =
      ((MaxErrorEvents : Int), (MaxTxnEvents : Int), (MaxCustomMaxEvents : Int), (MaxSpanMaxEvents : Int), (MaxLogMaxEvents : Int)) := by
  constructor
  · simp only [Gen.Negotiation.newHarvestLimits, newHarvestLimits, MaxErrorEvents, MaxTxnEvents, MaxCustomMaxEvents,
      MaxSpanMaxEvents, MaxLogMaxEvents, if_true]
    by_cases h1 : span < 10000 <;> by_cases h2 : span ≥ 0 <;> by_cases h3 : log < 20000 <;> by_cases h4 : log ≥ 0 <;>
    by_cases h5 : custom < 100000 <;> by_cases h6 : custom ≥ 0 <;> simp [h1, h2, h3, h4, h5, h6]
  · simp [Gen.Negotiation.newHarvestLimits, MaxErrorEvents, MaxTxnEvents, MaxCustomMaxEvents, MaxSpanMaxEvents, MaxLogMaxEvents]

/-- the model's `checkReportPeriod` is the code's -/
theorem tied_checkReportPeriod (period dflt : Nat) :
    ((checkReportPeriod period dflt : Nat) : Int) = Gen.Negotiation.checkReportPeriod (dflt : Int) (period : Int) := by
  simp only [checkReportPeriod, Gen.Negotiation.checkReportPeriod]
  by_cases h : period = 0
  · simp [h]
  · have : ¬ ((period : Int) = 0) := fun e => h (by omega)
    simp [h, this]

/-- the model's `finalLogLimit` is `processLogEventLimits` (all three pointers non-nil), and a nil pointer leaves the
collector's limit untouched -/
theorem tied_processLogEventLimits (agent collectorLimit : Int) (collectorPeriod : Nat) :
    Gen.Negotiation.processLogEventLimits true true collectorLimit (collectorPeriod : Int) true agent =
      finalLogLimit agent collectorLimit collectorPeriod ∧
    (∀ a b c : Bool, (a && b && c) = false →
      Gen.Negotiation.processLogEventLimits a b collectorLimit (collectorPeriod : Int) c agent = collectorLimit) := by
  constructor
  · simp only [Gen.Negotiation.processLogEventLimits, finalLogLimit, scaledAgentLogLimit, DefaultReportPeriod,
      Bool.not_true, Bool.false_eq_true, if_false]
    by_cases h1 : (agent * (collectorPeriod : Int)).tdiv (60000000000 : Int) ≥ 0 <;>
    by_cases h2 : (agent * (collectorPeriod : Int)).tdiv (60000000000 : Int) < collectorLimit <;> simp [h1, h2]
  · intro a b c h
    cases a <;> cases b <;> cases c <;> simp_all [Gen.Negotiation.processLogEventLimits]
