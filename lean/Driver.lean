import NrDaemon.Driver.Core
import NrDaemon.Driver.Containers
import NrDaemon.Driver.Metrics
import NrDaemon.Driver.Limits
import NrDaemon.Driver.Respawn
import NrDaemon.Driver.Frame
import NrDaemon.Driver.Lasp
import NrDaemon.Driver.Proc
import NrDaemon.Driver.Limiter
import NrDaemon.Driver.Json
import NrDaemon.Driver.Config
import NrDaemon.Driver.Redact
import NrDaemon.Driver.SpanQueue
import NrDaemon.Driver.Trigger
import NrDaemon.Driver.Race
import NrDaemon.Driver.Pid
import NrDaemon.Driver.Watch
import NrDaemon.Driver.Rules
import NrDaemon.Driver.AppKey
import NrDaemon.Driver.Wire
/-!
  Op-line driver (core Lean only; built as a `lean_exe`).

    driver model            < ops            one model result line per op
    driver check OPS IMPL                    per op: `OK` or `DIFF`, TAB, model result, TAB, Spec failures
-/

structure DState where
  cont : ContState := {}
  mt : MtState := {}
  proc : ProcEng := {}
  lim : LimEng := {}
  sq : SQEng := {}
  trig : TrigEng := {}
  pid : PidEng := {}
  watch : WatchEng := {}

def dispatch (st : DState) (line : String) (impl : Option String) : DState × StepOut :=
  let t := tokenize line
  match t.head? with
  | some "res" => let (c, o) := resStep st.cont t impl; ({ st with cont := c }, o)
  | some "err" => let (c, o) := heapStep true st.cont t impl; ({ st with cont := c }, o)
  | some "tr" => let (c, o) := heapStep false st.cont t impl; ({ st with cont := c }, o)
  | some "slow" => let (c, o) := slowStep st.cont t impl; ({ st with cont := c }, o)
  | some "mt" => let (c, o) := mtStep st.mt t impl; ({ st with mt := c }, o)
  | some "lim" => (st, limStep t impl)
  | some "respawn" => (st, respawnStep t impl)
  | some "frame" => (st, frameStep t impl)
  | some "lasp" => (st, laspStep t impl)
  | some "proc" => let (c, o) := procStep st.proc t impl; ({ st with proc := c }, o)
  | some "limiter" => let (c, o) := limiterStep st.lim t impl; ({ st with lim := c }, o)
  | some "json" => (st, jsonStep t impl)
  | some "cfg" => (st, cfgStep t impl)
  | some "flags" => (st, flagsStep t impl)
  | some "argv" => (st, argvStep t impl)
  | some "redact" => (st, redactStep t impl)
  | some "rules" => (st, rulesStepAll t impl)
  | some "appkey" => (st, appkeyStep t impl)
  | some "client" => (st, clientStep t impl)
  | some "wire" => (st, if tokStr t 1 == "txnmetrics" then wireTxnMetricsStep t impl
                        else if tokStr t 1 == "txnfields" then wireTxnFieldsStep t impl else wireStep t impl)
  | some "watch" => let (c, o) := watchStep st.watch t impl; ({ st with watch := c }, o)
  | some "pid" => let (c, o) := pidStep st.pid t impl; ({ st with pid := c }, o)
  | some "race" => (st, raceStep t impl)
  | some "tostress" => (st, { model := "done" })
  | some "trig" => let (c, o) := trigStep st.trig t impl; ({ st with trig := c }, o)
  | some "spanq" => let (c, o) := spanqStep st.sq t impl; ({ st with sq := c }, o)
  | some "reset" => ({}, { model := "ok" })
  | _ => (st, { model := "bad-op" })

partial def modelLoop (h : IO.FS.Stream) (out : IO.FS.Stream) (st : DState) : IO Unit := do
  let line ← h.getLine
  if line.isEmpty then return ()
  let (st', o) := dispatch st line none
  out.putStrLn o.model
  modelLoop h out st'

def stripNl (s : String) : String :=
  let s := if s.endsWith "\n" then (s.dropEnd 1).toString else s
  if s.endsWith "\r" then (s.dropEnd 1).toString else s

partial def checkLoop (ops impl : IO.FS.Stream) (out : IO.FS.Stream) (st : DState) : IO Unit := do
  let line ← ops.getLine
  if line.isEmpty then return ()
  let il ← impl.getLine
  let ir := stripNl il
  let (st', o) := dispatch st line (if il.isEmpty then none else some ir)
  let status := if il.isEmpty then "MISSING" else if o.model == ir then "OK" else "DIFF"
  out.putStrLn (status ++ "\t" ++ o.model ++ "\t" ++ String.intercalate ";;" o.specFails)
  checkLoop ops impl out st'

def main (args : List String) : IO UInt32 := do
  let out ← IO.getStdout
  match args with
  | ["model"] =>
    modelLoop (← IO.getStdin) out {}
    return 0
  | ["check", opsPath, implPath] =>
    let ops ← IO.FS.Handle.mk opsPath IO.FS.Mode.read
    let impl ← IO.FS.Handle.mk implPath IO.FS.Mode.read
    checkLoop (IO.FS.Stream.ofHandle ops) (IO.FS.Stream.ofHandle impl) out {}
    return 0
  | _ =>
    IO.eprintln "usage: driver model | driver check OPS IMPL"
    return 2
