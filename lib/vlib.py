"""Shared machinery for /verif/bin/check: regenerate Gen, build Lean + Go harness, run op streams through the
real code and through the Lean driver, compare, shrink, write evidence."""
import fcntl, glob, hashlib, json, os, random, re, shutil, subprocess, sys, time

VERIF = os.path.dirname(os.path.dirname(os.path.abspath(__file__)))
REPO = os.environ.get("VERIF_REPO", "/repo")
DAEMON = os.path.join(REPO, "daemon")
BUILD = os.path.join(VERIF, ".build")
LEAN = os.path.join(VERIF, "lean")
GEN = os.path.join(LEAN, "NrDaemon", "Gen")
DRIVER = os.path.join(LEAN, ".lake", "build", "bin", "driver")
HARNESS = os.path.join(BUILD, "verifharness")
ALLOWED_AXIOMS = {"propext", "Classical.choice", "Quot.sound"}
TRUSTED_BASE = [
    "Lean 4.33 kernel (thorough tier re-checks the property modules with leanchecker)",
    "axioms: propext, Classical.choice, Quot.sound only (audited with #print axioms on every run); no native_decide, no bv_decide, no sorry",
    "the extractor /verif/extract (go/ast + go/types, regenerates NrDaemon/Gen from /repo on every run)",
    "the Go harness grafted by `go build -tags verif -overlay` and the canonicalisation of its output",
    "the hand-written Lean model (NrDaemon/Model/*), validated against the real code by the correspondence run reported below",
]

GOENV = dict(os.environ, GOFLAGS="-mod=mod", GOPROXY="off", GOSUMDB="off", GOTOOLCHAIN="local",
             CGO_ENABLED=os.environ.get("CGO_ENABLED", "1"))


class TieBroken(Exception):
    def __init__(self, what, detail=""):
        super().__init__(what)
        self.what, self.detail = what, detail


def sh(cmd, cwd=None, env=None, timeout=None, input=None):
    p = subprocess.run(cmd, cwd=cwd, env=env, timeout=timeout, input=input,
                       stdout=subprocess.PIPE, stderr=subprocess.STDOUT, text=True, errors="replace")
    return p.returncode, p.stdout


class Lock:
    def __init__(self, name):
        os.makedirs(BUILD, exist_ok=True)
        self.path = os.path.join(BUILD, name + ".lock")

    def __enter__(self):
        self.f = open(self.path, "w")
        fcntl.flock(self.f, fcntl.LOCK_EX)
        return self

    def __exit__(self, *a):
        fcntl.flock(self.f, fcntl.LOCK_UN)
        self.f.close()


def file_hash(paths):
    h = hashlib.sha256()
    for p in sorted(paths):
        h.update(p.encode())
        try:
            with open(p, "rb") as f:
                h.update(f.read())
        except OSError:
            h.update(b"<missing>")
    return h.hexdigest()


# ---------------------------------------------------------------------------------------------------
# step 1: regenerate Gen/*.lean from the current /repo working tree

def regenerate():
    """Runs the extractor into a scratch dir and syncs it into lean/NrDaemon/Gen (stale files removed,
    unchanged files left alone so that lake does not rebuild).  Returns facts dict.  Raises TieBroken."""
    with Lock("build"):
        exe = os.path.join(BUILD, "extract")
        srcs = glob.glob(os.path.join(VERIF, "extract", "*.go"))
        stamp = os.path.join(BUILD, "extract.hash")
        hsh = file_hash(srcs)
        if not os.path.exists(exe) or not os.path.exists(stamp) or open(stamp).read() != hsh:
            rc, out = sh(["go", "build", "-o", exe, "."], cwd=os.path.join(VERIF, "extract"), env=GOENV)
            if rc != 0:
                raise RuntimeError("extractor does not build:\n" + out)
            open(stamp, "w").write(hsh)
        tmp = os.path.join(BUILD, "gen.tmp")
        shutil.rmtree(tmp, ignore_errors=True)
        os.makedirs(tmp)
        rc, out = sh([exe, REPO, tmp], env=GOENV)
        os.makedirs(GEN, exist_ok=True)
        new = {os.path.basename(p) for p in glob.glob(os.path.join(tmp, "*"))}
        for p in glob.glob(os.path.join(GEN, "*")):
            if os.path.basename(p) not in new:
                os.remove(p)
        for n in new:
            src, dst = os.path.join(tmp, n), os.path.join(GEN, n)
            if not os.path.exists(dst) or open(src, "rb").read() != open(dst, "rb").read():
                shutil.copyfile(src, dst)
        facts = {}
        try:
            facts = json.load(open(os.path.join(GEN, "facts.json")))
        except Exception:
            pass
        if rc != 0:
            raise TieBroken("extractor", out.strip()[-2000:])
        return facts


# ---------------------------------------------------------------------------------------------------
# step 2: Lean

def lake_build(targets, timeout=1800):
    with Lock("build"):
        rc, out = sh(["lake", "build"] + targets, cwd=LEAN, timeout=timeout)
    return rc, out


DRIVER_LASTGOOD = os.path.join(BUILD, "driver.lastgood")


def build_driver():
    """Builds the model driver from the current (regenerated) model.  Returns None.  If the model no longer builds - a
    regenerated table or translated function has changed shape - and a driver built from the last model that did build
    is at hand, that one is used for the search for a failing input (the model as it was against the code as it is) and the
    build failure is returned as a string for the caller to report; without one, TieBroken is raised."""
    global DRIVER
    rc, out = lake_build(["driver"])
    built = os.path.join(LEAN, ".lake", "build", "bin", "driver")
    if rc == 0:
        DRIVER = built
        try:
            tmp = DRIVER_LASTGOOD + ".%d" % os.getpid()
            shutil.copyfile(built, tmp)
            os.chmod(tmp, 0o755)
            os.replace(tmp, DRIVER_LASTGOOD)
        except OSError:
            pass
        return None
    if os.path.exists(DRIVER_LASTGOOD):
        DRIVER = DRIVER_LASTGOOD
        return tail_errors(out)
    raise TieBroken("lean-driver", tail_errors(out))


def tail_errors(out, n=40):
    lines = [l for l in out.splitlines() if "error" in l.lower() or l.startswith("  ")]
    return "\n".join((lines or out.splitlines())[-n:])


FORBIDDEN = re.compile(r"\bsorry\b|\badmit\b|^axiom\s|native_decide|bv_decide|implemented_by|\bunsafe\s|maxHeartbeats 0", re.M)


def strip_lean_comments(src):
    src = re.sub(r"/-.*?-/", "", src, flags=re.S)
    return re.sub(r"--.*", "", src)


def lean_forbidden():
    hits = []
    for p in glob.glob(os.path.join(LEAN, "NrDaemon", "**", "*.lean"), recursive=True) + [os.path.join(LEAN, "Driver.lean")]:
        s = strip_lean_comments(open(p).read())
        for m in FORBIDDEN.finditer(s):
            hits.append("%s: %s" % (os.path.relpath(p, LEAN), m.group(0).strip()))
    return hits


def theorems_in(module, prefix):
    path = os.path.join(LEAN, module.replace(".", "/") + ".lean")
    src = strip_lean_comments(open(path).read())
    return re.findall(r"^theorem\s+(%s\w*)" % re.escape(prefix), src, flags=re.M)


def prove(prop_id, module):
    """Builds the property module and audits axioms.  Returns dict(obligations, discharged, names, bad)."""
    names = theorems_in(module, prop_id + "_")
    rc, out = lake_build([module])
    res = {"obligations": len(names), "discharged": 0, "names": names, "failed": [], "build_ok": rc == 0,
           "detail": ""}
    if rc != 0:
        res["failed"] = failing_theorems(out, module, names) or names
        res["detail"] = tail_errors(out)
        return res
    audit = os.path.join(BUILD, "audit")
    os.makedirs(audit, exist_ok=True)
    apath = os.path.join(audit, "Audit_%s.lean" % prop_id)
    with open(apath, "w") as f:
        f.write("import %s\n" % module)
        for n in names:
            f.write("#print axioms %s\n" % n)
    with Lock("build"):
        rc, out = sh(["lake", "env", "lean", apath], cwd=LEAN, timeout=600)
    if rc != 0:
        res["failed"] = names
        res["detail"] = out[-2000:]
        return res
    axioms = {}
    cur = None
    for m in re.finditer(r"'([\w.]+)' (depends on axioms: \[([^\]]*)\]|does not depend on any axioms)", out.replace("\n", " ")):
        axioms[m.group(1)] = set(a.strip() for a in (m.group(3) or "").split(",") if a.strip())
    for n in names:
        if n in axioms and axioms[n] <= ALLOWED_AXIOMS:
            res["discharged"] += 1
        else:
            res["failed"].append(n)
    res["axioms"] = {n: sorted(axioms.get(n, ["<missing>"])) for n in names}
    forb = lean_forbidden()
    if forb:
        res["failed"] = names
        res["discharged"] = 0
        res["detail"] = "forbidden constructs: " + "; ".join(forb[:10])
    return res


def failing_theorems(out, module, names):
    """Best effort: map error line numbers in the module file to the enclosing theorem."""
    path = os.path.join(LEAN, module.replace(".", "/") + ".lean")
    rel = module.replace(".", "/") + ".lean"
    try:
        lines = open(path).read().splitlines()
    except OSError:
        return []
    starts = []
    for i, l in enumerate(lines, 1):
        m = re.match(r"theorem\s+(\w+)", l)
        if m:
            starts.append((i, m.group(1)))
    bad = []
    for m in re.finditer(re.escape(rel) + r":(\d+):\d+", out):
        ln = int(m.group(1))
        cand = [n for (s, n) in starts if s <= ln]
        if cand and cand[-1] in names and cand[-1] not in bad:
            bad.append(cand[-1])
    return bad


def leanchecker(modules):
    with Lock("build"):
        rc, out = sh(["lake", "env", "leanchecker"] + modules, cwd=LEAN, timeout=3600)
    return rc, out


# ---------------------------------------------------------------------------------------------------
# step 3: Go harness (grafted with -overlay; /repo is never modified)

PKG_DIRS = [("newrelic", "internal/newrelic"), ("collector", "internal/newrelic/collector"),
            ("infinite_tracing", "internal/newrelic/infinite_tracing"), ("config", "internal/newrelic/config"),
            ("log", "internal/newrelic/log")]


def write_overlay(extra=None):
    rep = {}
    for f in glob.glob(os.path.join(VERIF, "harness", "main", "*.go")):
        rep[os.path.join(DAEMON, "cmd", "verifharness", os.path.basename(f))] = f
    for pkg, dst in PKG_DIRS:
        for f in glob.glob(os.path.join(VERIF, "harness", pkg, "*.go")):
            rep[os.path.join(DAEMON, dst, "zz_verif_" + os.path.basename(f))] = f
    for f in glob.glob(os.path.join(VERIF, "harness", "cmddaemon", "*.go")):
        rep[os.path.join(DAEMON, "cmd", "daemon", "zz_verif_" + os.path.basename(f))] = f
    if extra:
        rep.update(extra)
    os.makedirs(BUILD, exist_ok=True)
    path = os.path.join(BUILD, "overlay.json")
    tmp = path + ".%d" % os.getpid()
    json.dump({"Replace": rep}, open(tmp, "w"), indent=1)
    os.replace(tmp, path)
    return path


def build_harness(race=False):
    with Lock("gobuild"):
        ov = write_overlay(woven_files())
        out_path = HARNESS + ("-race" if race else "")
        cmd = ["go", "build", "-tags", "verif", "-overlay", ov, "-o", out_path]
        if race:
            cmd.append("-race")
        rc, out = sh(cmd + ["./cmd/verifharness"], cwd=DAEMON, env=GOENV, timeout=900)
    if rc != 0:
        raise TieBroken("go-harness", out[-3000:])
    return out_path


def build_daemon_test_binary():
    """package main of cmd/daemon is driven through a grafted _test.go file."""
    with Lock("gobuild"):
        ov = write_overlay(woven_files())
        out_path = os.path.join(BUILD, "daemon.test")
        rc, out = sh(["go", "test", "-tags", "verif", "-overlay", ov, "-c", "-vet=off", "-o", out_path, "./cmd/daemon"],
                     cwd=DAEMON, env=GOENV, timeout=900)
    if rc != 0:
        raise TieBroken("go-daemon-test-binary", out[-3000:])
    return out_path


def weave_span_backoff():
    """virtual back-off: the 15 s sleep between RecordSpan attempts becomes 15 ms (a copy of the CURRENT source file with
    that one constant rewritten is grafted over it; /repo is untouched)"""
    src = os.path.join(DAEMON, "internal", "newrelic", "infinite_tracing", "trace_observer.go")
    try:
        text = open(src).read()
    except OSError:
        return {}
    new, n = re.subn(r"recordSpanBackoff\s*=\s*15\s*\*\s*time\.Second", "recordSpanBackoff = 15 * time.Millisecond", text)
    if n != 1:
        return {}
    # virtual time-out of a Shutdown call in progress (op shutbegin / shutend): the ticker of Shutdown comes from the harness;
    # if the call is not there any more the real ticker keeps running
    new, _n2 = re.subn(r"ticker := time\.NewTicker\(timeout\)", "ticker := verifShutdownTicker(timeout)", new, count=1)
    os.makedirs(os.path.join(BUILD, "woven"), exist_ok=True)
    dst = os.path.join(BUILD, "woven", "trace_observer.go")
    tmp = dst + ".%d" % os.getpid()
    open(tmp, "w").write(new)
    os.replace(tmp, dst)
    return {src: dst}


def weave_virtual_ticker():
    """virtual ticker: time.NewTicker(duration) inside triggerBuilder becomes verifNewTicker(t, duration), defined in
    harness/newrelic/trig.go (a copy of the CURRENT harvest_trigger.go with that one call rewritten is grafted)"""
    src = os.path.join(DAEMON, "internal", "newrelic", "harvest_trigger.go")
    try:
        text = open(src).read()
    except OSError:
        return {}
    new, n = re.subn(r"time\.NewTicker\(duration\)", "verifNewTicker(t, duration)", text)
    if n != 1:
        return {}
    os.makedirs(os.path.join(BUILD, "woven"), exist_ok=True)
    dst = os.path.join(BUILD, "woven", "harvest_trigger.go")
    tmp = dst + ".%d" % os.getpid()
    open(tmp, "w").write(new)
    os.replace(tmp, dst)
    return {src: dst}


WEAVERS = [weave_span_backoff, weave_virtual_ticker]  # functions returning {dst_path_in_repo: generated_file}


def woven_files():
    rep = {}
    for w in WEAVERS:
        rep.update(w())
    return rep


# ---------------------------------------------------------------------------------------------------
# step 4: run op streams

def _run_watched(argv, fin, fout, ferr, env, cwd, watch_path, stall, hard):
    """Run a harness process.  It is killed only when it makes no progress (its result file does not grow) for `stall`
    seconds, or after `hard` seconds in all: a loaded machine slows a run down but does not stop its output, a deadlock
    does.  Returns (returncode or -9, timed_out)."""
    import time
    p = subprocess.Popen(argv, stdin=fin, stdout=fout, stderr=ferr, env=env, cwd=cwd)
    t0 = last = time.time()
    size = -1
    while True:
        try:
            p.wait(timeout=1.0)
            return p.returncode, False
        except subprocess.TimeoutExpired:
            pass
        now = time.time()
        try:
            sz = os.path.getsize(watch_path)
        except OSError:
            sz = -1
        if sz != size:
            size, last = sz, now
        if now - last > stall or now - t0 > hard:
            p.kill()
            p.wait()
            return -9, True


def run_impl(ops_path, out_path, binary=None, timeout=300, env=None):
    """`timeout` is the longest the harness may go without writing a result line; the whole run may take 12x that."""
    binary = binary or HARNESS
    e = dict(os.environ, GOMEMLIMIT="4GiB", VERIF_SCRATCH=out_path + ".scratch")
    if env:
        e.update(env)
    argv = binary if isinstance(binary, list) else [binary]
    errp = out_path + ".stderr"
    if isinstance(binary, list) and binary and binary[0].endswith(".test"):
        # package-main driver: a `go test -c` binary that writes its result lines to $VERIF_OUT
        e["VERIF_OUT"] = out_path
        with open(ops_path) as fin, open(errp, "wb") as ferr:
            rc, to = _run_watched(argv, fin, ferr, subprocess.STDOUT, e, os.path.join(BUILD), out_path, timeout, 12 * timeout)
        if to:
            return -9, "timeout"
        return rc, open(errp, "rb").read().decode(errors="replace")[-4000:]
    with open(ops_path) as fin, open(out_path, "w") as fout, open(errp, "wb") as ferr:
        rc, to = _run_watched(argv, fin, fout, ferr, e, None, out_path, timeout, 12 * timeout)
    if to:
        return -9, "timeout"
    return rc, open(errp, "rb").read().decode(errors="replace")[-4000:]


def run_check(ops_path, impl_path, timeout=600):
    p = subprocess.run([DRIVER, "check", ops_path, impl_path], stdout=subprocess.PIPE, stderr=subprocess.PIPE,
                       text=True, timeout=timeout)
    if p.returncode != 0:
        raise RuntimeError("lean driver failed: " + p.stderr[-2000:])
    res = []
    for line in p.stdout.splitlines():
        parts = line.split("\t")
        while len(parts) < 3:
            parts.append("")
        res.append((parts[0], parts[1], [s for s in parts[2].split(";;") if s]))
    return res


class SeqResult:
    __slots__ = ("name", "ops", "impl", "status", "diffs", "spec", "crashed")

    def __init__(self, name, ops):
        self.name, self.ops = name, ops
        self.impl, self.status = [], []
        self.diffs, self.spec = [], []   # (index, model, impl) / (index, msg)
        self.crashed = False


def annotate_expect(seqs, workdir, tag):
    """Two-pass protocol for engines whose implementation side has to wait for asynchronous collector requests: the
    model is run first and the number of requests it predicts for each op is appended as `expect=<n>` (the Lean
    engines ignore that token)."""
    os.makedirs(workdir, exist_ok=True)
    ops_path = os.path.join(workdir, tag + ".pre.ops")
    with open(ops_path, "w") as f:
        for name, ops in seqs:
            f.write("reset\n")
            for o in ops:
                f.write(o + "\n")
    p = subprocess.run([DRIVER, "model"], stdin=open(ops_path), stdout=subprocess.PIPE, stderr=subprocess.PIPE, text=True, timeout=900)
    if p.returncode != 0:
        raise RuntimeError("lean driver failed: " + p.stderr[-2000:])
    lines = p.stdout.split("\n")
    out, i = [], 0
    for name, ops in seqs:
        i += 1
        new = []
        for o in ops:
            m = lines[i] if i < len(lines) else ""
            i += 1
            k = m.find("reqs=")
            if k >= 0:
                body = m[k + 5:].strip()       # `reqs=` is always the last field of a result line
                n = 0 if body in ("-", "") else body.count(";") + 1
                o = o + " expect=%d" % n
            new.append(o)
        out.append((name, new))
    return out


def run_sequences(seqs, workdir, tag="gen", binary=None, impl_env=None, expect=False):
    """seqs: list of (name, [op lines]).  Every sequence is preceded by `reset`.  Returns list of SeqResult."""
    os.makedirs(workdir, exist_ok=True)
    if expect:
        seqs = annotate_expect(seqs, workdir, tag)
    ops_path = os.path.join(workdir, tag + ".ops")
    impl_path = os.path.join(workdir, tag + ".impl")
    bounds = []
    with open(ops_path, "w") as f:
        n = 0
        for name, ops in seqs:
            f.write("reset\n")
            n += 1
            bounds.append((n, n + len(ops)))
            for o in ops:
                assert "\n" not in o
                f.write(o + "\n")
            n += len(ops)
    rc, err = run_impl(ops_path, impl_path, binary=binary, env=impl_env)
    impl_lines = open(impl_path).read().split("\n")
    if impl_lines and impl_lines[-1] == "":
        impl_lines.pop()
    chk = run_check(ops_path, impl_path)
    out = []
    for (name, ops), (a, b) in zip(seqs, bounds):
        r = SeqResult(name, ops)
        for i in range(a, b):
            st, model, spec = chk[i] if i < len(chk) else ("MISSING", "", [])
            il = impl_lines[i] if i < len(impl_lines) else None
            r.impl.append(il)
            r.status.append(st)
            if st != "OK":
                r.diffs.append((i - a, model, il))
            for s in spec:
                r.spec.append((i - a, s))
            if il is None:
                r.crashed = True
        out.append(r)
    if rc != 0:
        # the harness died: mark the first sequence with missing output
        for r in out:
            if r.crashed:
                r.spec.append((len([x for x in r.impl if x is not None]), "harness process died (rc=%s): %s" % (rc, err[-300:])))
                break
    return out


def run_with_impl(seqs, impl_fn, workdir, tag):
    """Like run_sequences, but the implementation side is a Python function (used for process-level engines that run
    the real binary): impl_fn(op_line) -> result line."""
    os.makedirs(workdir, exist_ok=True)
    ops_path = os.path.join(workdir, tag + ".ops")
    impl_path = os.path.join(workdir, tag + ".impl")
    flat = []
    for name, ops in seqs:
        flat.append("reset")
        flat.extend(ops)
    with open(ops_path, "w") as f:
        f.write("\n".join(flat) + "\n")
    with open(impl_path, "w") as f:
        for o in flat:
            f.write(("ok" if o == "reset" else impl_fn(o)) + "\n")
    impl_lines = open(impl_path).read().split("\n")[:-1]
    chk = run_check(ops_path, impl_path)
    out, i = [], 0
    for name, ops in seqs:
        i += 1
        r = SeqResult(name, ops)
        for k in range(len(ops)):
            st, model, spec = chk[i + k]
            r.impl.append(impl_lines[i + k])
            r.status.append(st)
            if st != "OK":
                r.diffs.append((k, model, impl_lines[i + k]))
            for sp in spec:
                r.spec.append((k, sp))
        i += len(ops)
        out.append(r)
    return out


def run_one(ops, workdir, tag="one", binary=None, impl_env=None):
    return run_sequences([("one", ops)], workdir, tag, binary=binary, impl_env=impl_env)[0]


def ddmin(ops, fails, max_tests=400, budget=240.0):
    """Delta-debugging over an op list.  `fails(ops) -> bool`.  Stops after `max_tests` candidates or `budget` seconds (every
    candidate is re-run on the real code; a sequence that wedges costs a watchdog each time) and returns the smallest failing
    list found so far."""
    tests = [0]
    t0 = time.time()

    def t(x):
        tests[0] += 1
        return fails(x)

    n = 2
    while len(ops) >= 2 and tests[0] < max_tests and time.time() - t0 < budget:
        chunk = max(1, len(ops) // n)
        reduced = False
        for i in range(0, len(ops), chunk):
            if time.time() - t0 >= budget or tests[0] >= max_tests:
                return ops
            cand = ops[:i] + ops[i + chunk:]
            if cand and t(cand):
                ops = cand
                n = max(n - 1, 2)
                reduced = True
                break
        if not reduced:
            if chunk == 1:
                break
            n = min(n * 2, len(ops))
    return ops


# ---------------------------------------------------------------------------------------------------
# known findings

def load_known(prop_id):
    known, fixed = [], []
    path = os.path.join(VERIF, "known_findings.txt")
    if not os.path.exists(path):
        return known, fixed
    for line in open(path):
        line = line.strip()
        if not line or line.startswith("#"):
            continue
        m = re.match(r"(known|fixed):\s+property=(\S+)\s+(.*)", line)
        if not m or m.group(2) != prop_id:
            continue
        if m.group(1) == "fixed":
            fixed.append(m.group(3))
            continue
        kv = dict(re.findall(r"(\w+)=(\S+)", m.group(3)))
        what = m.group(3).split(" :: ", 1)[1] if " :: " in m.group(3) else m.group(3)
        known.append({"id": kv.get("id", "?"), "replay": kv.get("replay"), "sig": kv.get("sig", kv.get("id")), "what": what})
    return known, fixed


# ---------------------------------------------------------------------------------------------------
# evidence

def daemon_test_argv():
    return [os.path.join(BUILD, "daemon.test"), "-test.run", "^TestVerifDriver$", "-test.count=1"]


def write_evidence(prop_id, ev):
    os.makedirs(os.path.join(VERIF, "evidence"), exist_ok=True)
    path = os.path.join(VERIF, "evidence", prop_id + ".json")
    tmp = path + ".tmp"
    json.dump(ev, open(tmp, "w"), indent=1, sort_keys=True)
    os.replace(tmp, path)
    return path
